#!/usr/bin/env python3
"""Regenerates /verif/MANIFEST.json from the table below (kept here so the manifest stays valid and consistent)."""
import json, os
ROOT = os.path.dirname(os.path.dirname(os.path.abspath(__file__)))
TECH = "solver-based bounded symbolic execution of the real Go SSA (gosym: go/ssa -> SMT-LIB2 bit-vectors, z3 5.1 incremental with z3 4.8.12 / one-shot fallback); counterexamples and solver-chosen samples replayed natively with go test -overlay"
NOTE = "trusted: go/ssa v0.29.0, the gosym interpreter and its (randomly self-tested) term simplifier, the SMT-LIB printer, z3; stubs, assumptions and bounds are listed per run in the evidence file; a pass means 'holds for all values within the stated bounds', nothing outside them"
CHECKS = {
 "C14": ("bounded symbolic execution of keyban.OnRequest -> Swarm.Contains/Notify -> State -> crdt.Durable (Add/Del/Has/Merge/fetch/store) over stubbed storage engines: every sequence of ban / unban / use on broker A and delivery / use on a second durable broker B, symbolic clock steps", "3 C14"),
 "C15": ("bounded symbolic execution of the emitter side of the disk store - storage.SSD.Configure (options handed to badger.Open), Store/storeFrame/encodeFrame (what is committed, when, with which expiry, whether a failed commit is reported), Close, lookup/loadMessage after a restart, and Message.Encode/DecodeMessage with the real messageCodec over the real kelindar/binary encoder/decoder - over badger's documented contract as a stand-in (atomic Update, committed entries survive a kill and are seen by Open on the same directory, key order, expiry): histories of stores with symbolic channel, time, payload, ttl and commit failures, then clean shutdown or kill, reopen, and a history query per message. badger's own crash recovery, the file system and the page cache are assumed, not checked (stated in the evidence); natively the samples and counterexamples run against the real badger on a temporary directory, a kill being emulated by copying the live directory", "3 C15 and 6"),
 "C16": ("bounded symbolic execution of all 14 EncodeTo functions, DecodePacket, decodeHeader, writeHeader, encodeLength against the paho.mqtt.golang packets implementation (also executed symbolically from its SSA) and a transcription of the 3.1.1 remaining-length algorithm: every remaining length < 2^28, every flag/QoS/id value, strings and tuple counts up to the stated bound, payload lengths at every encoding and buffer boundary", "3 C16"),
 "C01": ("bounded symbolic execution of message.Trie Subscribe/Unsubscribe/Lookup/Count, lookupEmitter/lookupMqtt/randomByGroup, node.orphan and Subscribers over histories whose filter and channel words are arbitrary 32-bit values (literal, '+', '#', share, repeated and permuted levels arise as solver-chosen equality patterns), both matcher modes, compared with a reference matcher; Count and node reclamation", "3 C01"),
 "C02": ("bounded symbolic execution of pubsub.Subscribe/Unsubscribe/Publish, broker.Conn.CanSubscribe/CanUnsubscribe/Send, message.Counters and the trie on two real connections: ssid-level histories with arbitrary 32-bit words (so filters that collide in the per-connection XOR-fold bookkeeping are found by the solver), delivery compared with the set of acknowledged (connection, filter) pairs", "3 C02"),
 "C03": ("bounded symbolic execution of broker.Service.Authorize with the real keygen service, SingleContractProvider/contract.Validate, security.Key (SetTarget, ValidateChannel, IsExpired, HasPermission), ParseChannel and murmur hash.Of: all key fields, the license, the clock, the permission needed and the letters of target and requested channel symbolic, compared in both directions with the predicate transcribed from the statement", "3 C03"),
 "C04": ("bounded symbolic execution of crdt.Volatile/Durable Merge/Add/Del/Has/Get: three update sets with symbolic int64 add/remove times delivered to four replicas in every order, with duplicates, pre-merged groups and relayed deltas; local operations under an arbitrary clock", "3 C04"),
 "C05": ("bounded symbolic execution of cluster.Swarm.merge/Notify/findPeer/onPeerOnline/onPeerOffline, Peer.onSubscribe/onUnsubscribe, message.Counters, pubsub.Subscribe/Unsubscribe, the trie and event.State: (a) one broker fed consecutive payloads with arbitrary add/remove times about two connections of a peer - routing must follow the replicated state after every payload; (b) two brokers with client activity, in-order / lost broadcasts, peer garbage collection and periodic full-state exchange, routing checked at quiescence", "3 C05"),
 "C06": ("bounded symbolic execution of storage.SSD.lookup (InMemory embeds it), message.NewPrefix / ID.HasPrefix / ID.Match / ID.Time and Frame.Limit/Sort over a symbolic key-ordered store: stored contract, channel words, times and expiry symbolic (so 32-bit key-prefix collisions between contracts are found by the solver), query filter, window, limit and continuation id symbolic; natively replayed against the real in-memory badger", "3 C06"),
 "C07": ("bounded symbolic execution of pubsub.OnPublish, OnLastWill and OnSubscribe with the real Authorize/ParseChannel/Channel.TTL/Last/Window (strconv from SSA): permission mask, retain/will flags and option values symbolic (decimal digits, plus the values at the 2^31/2^32 boundaries), storage as a recording stub", "3 C07"),
 "C08": ("bounded symbolic execution of broker.Conn.Close (with its recover), Process/onReceive/onConnect on a scripted socket, pubsub.Unsubscribe/OnLastWill, Counters.All and the trie: histories of subscriptions with arbitrary ssid words plus a link auto-subscription, a watched last will with a symbolic permission mask, and a real encoded session stream cut at every byte offset, ended by DISCONNECT or corrupted in one byte", "3 C08"),
 "C09": ("bounded symbolic execution with panic, allocation-size and termination obligations: broker.Conn.Process + Close on every client byte string up to the bound (real mqtt.DecodePacket, pubsub handlers, ParseChannel), Service.onPeerMessage on arbitrary decoded messages, message.readBytes and ID accessors on arbitrary bytes, event.decodeSubscription/decodeConnection on arbitrary keys, storage.SSD.lookup with arbitrary limits, survey.Surveyor.Send on arbitrary channels; every make with a symbolic size must stay within a stated bound", "3 C09"),
 "C10": ("bounded symbolic execution with schedules as path forks: harness threads (two or three publishers encoding sequence-numbered PUBLISH packets, a flush thread, a subscription-churning connection) run the real listener.Conn.Write/enqueue/Flush/Len, mqtt.Publish.EncodeTo with its buffer pool, websocketTransport.Write, broker.Conn.onReceive/Send, pubsub.OnPublish/Publish and the trie under every schedule with at most the stated number of preemptions (scheduling points before every acquire-like synchronisation operation, justified by a happens-before race detector over the same runs), with payload bytes and every rate-limiter answer symbolic; the received byte stream is decoded independently: whole packets, per-publisher order, no loss or duplication; schedules are replayed natively through a generated scheduling-point instrumentation of the current source, races are confirmed with go test -race", "2.9 and 3 C10"),
 "C11": ("bounded symbolic execution of keygen.OnRequest/CreateKey/ExtendKey (Request.access/expires), broker.Service.Authorize(AllowExtend), Key.SetTarget/ValidateChannel and the extend guards of pubsub.OnSubscribe/OnUnsubscribe/OnPublish and link.OnRequest: every presented key (all 24 bytes' fields, license, clock symbolic), type letters, ttl and channel letters", "3 C11"),
 "C12": ("bounded symbolic execution of the real v2 (XSalsa20) and v3 (salted Salsa20) key ciphers (keystream uninterpreted, HSalsa20 from source), decode path, contract.Validate and broker.Service.Authorize: every XOR mask on the 24 cipher bytes of an issued key with symbolic fields, symbolic probe channel and permission; Authorize(altered) must imply Authorize(issued). v1/XTEA is outside (computational)", "3 C12"),
 "C13": ("bounded symbolic execution of Volatile.Merge, Durable.Merge and State.Merge: local state and incoming payload symbolic per key (every order of add/remove times, ties, zeros, missing keys); payloads queued through the gossip sender's pending.Merge(new) rule", "3 C13"),
 "C17": ("bounded symbolic execution of the real listener.Listener.serve with its matchers (HTTP patricia tree, any), sniffer.Read/reset, listener.Conn.Write/enqueue/Flush/Len and websocketTransport.Read/Write: stream bytes symbolic, socket read chunking, reader buffer sizes, limiter outcomes, timer-flush placement, WebSocket opcodes / message sizes / fragmenting all explored", "3 C17"),
 "C18": ("bounded symbolic execution of presence.OnRequest/Notify/send/lookupPresence, broker.Service.NotifySubscribe/NotifyUnsubscribe, pubsub.OnSubscribe/OnUnsubscribe, Conn.Close and the trie over every history (within the bound) of two clients subscribing / unsubscribing / disconnecting and a watcher issuing status and change requests, the notifier goroutine run to quiescence after each request", "3 C18"),
 "C19": ("bounded symbolic execution of message.NewID/NewPrefix/ID.Time/Ssid/Contract/SetTime/HasPrefix/Match (ssid words and times symbolic), Frame.Split with a symbolic byte bound, the length-prefixed message fields through the real kelindar/binary encoder/decoder and readBytes, and cluster.Peer.Send/swap/processSendQueue against a recording transport with every flush placement", "3 C19"),
 "C20": ("bounded symbolic execution of Xtea/Salsa/Shuffle EncryptKey/DecryptKey with every secret symbolic, the real base64 codec pair (encoding/base64 SSA + decodeKey), license V1 String/Parse and Parse on arbitrary byte strings; decided compositionally (codec bijection L1, cipher inversion L2)", "3 C20"),
}
NA = {
}
PENDING = "check not built yet in this session (work in progress, see DESIGN.md section 8); not claimed"
ALL = ["C%02d" % i for i in range(1, 21)]
checks = []
for pid in ALL:
    if pid in CHECKS and os.path.exists(os.path.join(ROOT, "harness", pid, "spec.json")):
        text, ref = CHECKS[pid]
        checks.append({
            "property_id": pid,
            "quick_cmd": "./check %s --tier quick" % pid,
            "thorough_cmd": "./check %s --tier thorough" % pid,
            "evidence_file": "/verif/evidence/%s.json" % pid,
            "replay_cmd_template": "./check %s --replay {path}" % pid,
            "engine": "gosym",
            "level_claimed": {"category": "model_checking", "text": text, "design_ref": "DESIGN.md section " + ref},
            "level_note": NOTE,
            "technique": TECH,
        })
na = []
for pid in ALL:
    if pid in NA:
        na.append({"property_id": pid, "reason": NA[pid]})
    elif not any(c["property_id"] == pid for c in checks):
        na.append({"property_id": pid, "reason": PENDING})
m = {
 "version": 1,
 "setup_cmd": "cd /verif && . ./env.sh && mkdir -p bin out evidence && cd engine && go build -o ../bin/gosym ./cmd/gosym",
 "hooks": {
  "guard": "verif",
  "enable": "no source hooks: harnesses and the verifrt runtime package are injected into /repo packages with go/packages Overlay (symbolic run) and `go test -overlay` (native replay); /repo carries only fix: commits",
  "baseline_off_cmd": "cd /repo && go test -vet=off -count=1 -timeout 25m ./...",
  "source_commits": [],
  "add_only": True,
 },
 "engines": [{"name": "gosym", "path": "/verif/engine", "serves_properties": [c["property_id"] for c in checks],
              "kind_free_text": "hand-written forking symbolic executor over golang.org/x/tools/go/ssa emitting SMT-LIB2 bit-vector queries to resident z3 processes; counterexamples replayed natively with go test -overlay"}],
 "checks": checks,
 "not_applicable": na,
 "notes": "see DESIGN.md; known findings and fixed defects in known_findings.json",
}
json.dump(m, open(os.path.join(ROOT, "MANIFEST.json"), "w"), indent=1)
print("checks:", [c["property_id"] for c in checks])
