#!/usr/bin/env python3
"""Confirm a seeded change and run checks against it.

usage: seed.py <seed-name> <property> <patch.diff> <demo_test.go> <demo pkg dir rel to repo> <needs text> <check id> [<check id>...]

1. scratch worktree of /repo HEAD under /tmp/seedwt: apply patch, go build ./..., run the
   touched packages' tests and the demo test (must fail), revert, demo must pass.
2. apply the patch to /repo itself, run the given checks (quick; thorough if quick misses),
   undo with git checkout.
3. write /verif/seeded/<seed-name>/{patch.diff,<demo>,meta.json}.
"""
import json, os, re, shutil, subprocess, sys, time

ENV = dict(os.environ, GOFLAGS="-mod=mod", GOPROXY="off")


def sh(cmd, cwd=None, timeout=1800):
    p = subprocess.run(cmd, shell=True, cwd=cwd, env=ENV, capture_output=True, text=True, timeout=timeout)
    return p.returncode, (p.stdout + p.stderr)


def main():
    name, prop, patch, demo, demodir, needs = sys.argv[1:7]
    checks = sys.argv[7:]
    patch, demo = os.path.abspath(patch), os.path.abspath(demo)
    wt = "/tmp/seedwt"
    sh("git -C /repo worktree remove --force %s" % wt)
    rc, out = sh("git -C /repo worktree add --detach %s HEAD" % wt)
    assert rc == 0, out
    meta = {"seed": name, "breaks_property": prop, "needs_to_manifest": needs, "confirmed": {}, "checks": {}}
    try:
        rc, out = sh("git apply %s" % patch, cwd=wt)
        assert rc == 0, "patch does not apply: " + out
        rc, out = sh("git diff --stat", cwd=wt)
        touched = sorted(set(os.path.dirname(l.split("|")[0].strip()) for l in out.splitlines() if "|" in l))
        rc, out = sh("go build ./...", cwd=wt)
        meta["confirmed"]["builds"] = rc == 0
        pk = " ".join("./" + t for t in set(touched + [demodir]))
        rc, out = sh("go test -vet=off -count=1 %s" % pk, cwd=wt)
        fails = [l for l in out.splitlines() if l.startswith("--- FAIL") and "TestJoin" not in l and "TestNewClient" not in l and "TestRandom" not in l and "TestTimeout" not in l]  # the last two are flaky on the clean tree under load
        meta["confirmed"]["existing_tests_pass_with_change"] = len(fails) == 0
        meta["confirmed"]["existing_test_failures"] = fails[:5]
        dst = os.path.join(wt, demodir, "zz_seed_demo_test.go")
        shutil.copy(demo, dst)
        rc1, out1 = sh("go test -vet=off -count=1 -run TestSeedDemo ./%s" % demodir, cwd=wt)
        meta["confirmed"]["demo_fails_with_change"] = rc1 != 0
        sh("git apply -R %s" % patch, cwd=wt)
        rc2, out2 = sh("go test -vet=off -count=1 -run TestSeedDemo ./%s" % demodir, cwd=wt)
        jo = [l for l in out2.splitlines() if l.startswith("--- FAIL") and "TestJoin" not in l and "TestNewClient" not in l]
        meta["confirmed"]["demo_passes_without_change"] = rc2 == 0 or len(jo) == 0
        meta["ran"] = ["git apply patch.diff (scratch worktree)", "go build ./...", "go test -vet=off -count=1 " + pk, "demo test with / without the change"]
    finally:
        sh("git -C /repo worktree remove --force %s" % wt)
    ok = all(meta["confirmed"].get(k) for k in ["builds", "existing_tests_pass_with_change", "demo_fails_with_change", "demo_passes_without_change"])
    meta["kept"] = ok
    print(json.dumps(meta["confirmed"]))
    if ok and checks:
        rc, out = sh("git -C /repo status --porcelain")
        assert out.strip() == "", "/repo not clean"
        rc, out = sh("git -C /repo apply %s" % patch)
        assert rc == 0, out
        try:
            for c in checks:
                res = {}
                # the first check is the one for the property the change breaks; the others are
                # neighbours that may also notice: quick tier only
                for tier in (["quick", "thorough"] if (c == checks[0] and os.environ.get("SEED_THOROUGH")) else ["quick"]):
                    t0 = time.time()
                    rc, out = sh("./check %s --tier %s" % (c, tier), cwd="/verif", timeout=3600)
                    viol = sorted(set(re.findall(r"assert=(\S+)", out)))
                    res[tier] = {"exit": rc, "violated_asserts": viol, "wall_s": round(time.time() - t0), "last": out.strip().splitlines()[-1][:200] if out.strip() else ""}
                    print(c, tier, rc, viol)
                    if rc == 1:
                        break
                meta["checks"][c] = res
        finally:
            sh("git -C /repo checkout -- .")
        # restore evidence of the unchanged tree for the touched checks
        for c in checks:
            sh("git checkout -- evidence/%s.json" % c, cwd="/verif")
    d = os.path.join("/verif/seeded", name)
    os.makedirs(d, exist_ok=True)
    shutil.copy(patch, os.path.join(d, "patch.diff"))
    shutil.copy(demo, os.path.join(d, os.path.basename(demo)))
    meta["demo_dir"] = demodir
    meta["caught_by"] = sorted(c for c, r in meta["checks"].items() if any(t.get("exit") == 1 for t in r.values()))
    json.dump(meta, open(os.path.join(d, "meta.json"), "w"), indent=1)
    print("kept" if ok else "REJECTED", name, "caught_by", meta["caught_by"])


main()
