#!/bin/bash
# runs every registered check's thorough tier sequentially against the repo given in $1 (default /repo)
REPO=${1:-/repo}
cd "$(dirname "$0")/.."
V=$PWD
for id in $(python3 -c "import json;print(' '.join(c['property_id'] for c in json.load(open('MANIFEST.json'))['checks']))"); do
  s=$(date +%s)
  out=$(timeout 3000 ./check $id --tier thorough -repo $REPO -verif $V 2>&1)
  rc=$?
  e=$(( $(date +%s) - s ))
  echo "$id rc=$rc ${e}s :: $(echo "$out" | tail -n 1 | cut -c1-200)"
  echo "$out" | grep "^VIOLATION\|^INCONCLUSIVE\|^KNOWN" | head -6 | cut -c1-300
done
