#!/bin/bash
# runs the thorough tier of the given checks (default: all) against a repository snapshot
# (vp run --with-repo sets $VP_RUN_REPO); one line per check in thorough.log
cd "$(dirname "$0")/.."
repo="${VP_RUN_REPO:-/repo}"
ids="$@"
[ -z "$ids" ] && ids=$(python3 -c "import json;print(' '.join(c['property_id'] for c in json.load(open('MANIFEST.json'))['checks']))")
for id in $ids; do
  s=$(date +%s)
  out=$(timeout 3000 ./check $id --tier thorough -repo "$repo" -verif "$PWD" 2>&1)
  rc=$?
  echo "$id rc=$rc $(( $(date +%s) - s ))s :: $(echo "$out" | tail -n 1 | cut -c1-200)"
  echo "$out" | grep "^VIOLATION\|^  assert\|^INCONCLUSIVE" | head -8 | cut -c1-300
done
