#!/usr/bin/env python3
"""Runs the repository's test suite (guard off, nothing from /verif) and checks that every
test listed as stable_pass in /root/.vp/BASELINE.json still passes. usage: pinned.py [repo]"""
import json, os, subprocess, sys
repo = sys.argv[1] if len(sys.argv) > 1 else "/repo"
base = json.load(open("/root/.vp/BASELINE.json"))
env = dict(os.environ, GOFLAGS="-mod=mod", GOPROXY="off", GOTOOLCHAIN="local",
           PATH="/root/go/pkg/mod/golang.org/toolchain@v0.0.1-go1.24.0.linux-amd64/bin:" + os.environ["PATH"])
p = subprocess.run("go test -json -vet=off -count=1 -timeout 25m ./...", shell=True, cwd=repo, env=env, capture_output=True, text=True)
res = {}
for l in p.stdout.splitlines():
    try:
        e = json.loads(l)
    except Exception:
        continue
    if e.get("Test") and e.get("Action") in ("pass", "fail", "skip"):
        res[e["Package"] + "::" + e["Test"]] = e["Action"]
bad = [t for t in base["stable_pass"] if res.get(t) != "pass"]
print("stable_pass tests: %d, passing now: %d" % (len(base["stable_pass"]), len(base["stable_pass"]) - len(bad)))
for t in bad:
    print("NOT PASSING:", t, res.get(t))
sys.exit(1 if bad else 0)
