#!/usr/bin/env python3
"""Prints the DESIGN.md section 11 table from /verif/seeded/*/meta.json."""
import json, glob, os
rows = []
for f in sorted(glob.glob('/verif/seeded/*/meta.json')):
    m = json.load(open(f))
    name = m['seed']
    caught = []
    for c, r in m.get('checks', {}).items():
        for tier, t in r.items():
            if t.get('exit') == 1:
                caught.append("%s %s: %s" % (c, tier, ", ".join(t['violated_asserts'][:3])))
    status = "kept" if m.get('kept') else "rejected (%s)" % ", ".join(k for k, v in m.get('confirmed', {}).items() if v is False)
    rows.append("| `%s` | %s | %s | %s | %s |" % (name, m['breaks_property'], m['needs_to_manifest'], status, "; ".join(caught) if caught else ("**not caught** by " + ", ".join(m.get('checks', {}).keys()) if m.get('checks') else "-")))
print("| seeded change | property | needs, to manifest | status | caught by (tier: assertions) |")
print("|---|---|---|---|---|")
print("\n".join(rows))
