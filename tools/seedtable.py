#!/usr/bin/env python3
"""Prints the DESIGN.md section 11 table from /verif/seeded/*/meta.json (compact form)."""
import json, glob
rows = []
n = caught_own = caught_any = 0
for f in sorted(glob.glob('/verif/seeded/*/meta.json')):
    m = json.load(open(f))
    if not m.get('kept'):
        continue
    n += 1
    caught = []
    for c, r in m.get('checks', {}).items():
        for tier, t in r.items():
            if t.get('exit') == 1:
                caught.append("%s (%s)" % (c, ", ".join(a.split('.', 1)[-1] for a in t['violated_asserts'][:2])))
    own = any(c.startswith(m['breaks_property']) for c in caught)
    caught_own += own
    caught_any += bool(caught)
    needs = m['needs_to_manifest'].replace('Needs ', '').replace('|', '/')
    if len(needs) > 150:
        needs = needs[:147] + '...'
    rows.append("| `%s` | %s | %s |" % (m['seed'], needs, "; ".join(caught) if caught else "**not caught**"))
print("%d kept changes; %d caught by the check of the property they break, %d by some check (quick tier).\n" % (n, caught_own, caught_any))
print("| seeded change | needs, to manifest | caught by (first assertions) |")
print("|---|---|---|")
print("\n".join(rows))
