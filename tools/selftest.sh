#!/bin/bash
# Self-test of the thread machinery on four textbook programs with known verdicts
# (harness/SELFTEST/toy.go). Not a property check; exits 0 iff every verdict is as expected.
cd "$(dirname "$0")/.."
. ./env.sh
[ -x bin/gosym ] || (cd engine && go build -o ../bin/gosym ./cmd/gosym)
REPO=${1:-/repo}
ok=0
expect() { # entry, pattern that must appear, pattern that must not
  out=$(./bin/gosym -spec harness/SELFTEST/spec.json -tier quick -repo "$REPO" -entry "$1" 2>&1)
  if echo "$out" | grep -q "$2" && ! echo "$out" | grep -q "$3"; then echo "ok   $1 ($2)"; else echo "FAIL $1: wanted /$2/ and no /$3/"; echo "$out" | tail -n 5; ok=1; fi
}
expect VerifSelfLocked    "^PASS property=SELFTEST" "VIOLATION"
expect VerifSelfRacy      "assert=SELFTEST.data-race-free" "^PASS"
expect VerifSelfAtomicity "assert=SELFTEST.atomicity.one-claim" "^PASS"
expect VerifSelfDeadlock  "assert=SELFTEST.no-deadlock" "^PASS"
rm -f evidence/SELFTEST.json
exit $ok
