# source me: toolchain env for building/running the engine offline
export GOMODCACHE=${GOMODCACHE:-/root/go/pkg/mod}
export PATH=$GOMODCACHE/golang.org/toolchain@v0.0.1-go1.24.0.linux-amd64/bin:$PATH
export GOTOOLCHAIN=local GOFLAGS=-mod=mod GOPROXY=off GONOSUMDB=* GONOSUMCHECK=1 GONOSUMDB=*
export GOFLAGS=-mod=mod
