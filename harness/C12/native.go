package broker

import "encoding/base64"

// c12alterNative applies the XOR mask to the raw cipher bytes of a real key string.
func c12alterNative(issued string, mask []byte) []byte {
	raw, err := base64.RawURLEncoding.DecodeString(issued)
	if err != nil || len(raw) != 24 {
		return []byte(issued)
	}
	for i := range raw {
		raw[i] ^= mask[i]
	}
	return []byte(base64.RawURLEncoding.EncodeToString(raw))
}
