package broker

import "encoding/base64"

// c12alterNative applies the XOR mask to the raw cipher bytes of a real key string.
func c12alterNative(issued string, mask []byte) []byte {
	raw, err := base64.RawURLEncoding.DecodeString(issued)
	if err != nil || len(raw) != 24 {
		return []byte(issued)
	}
	for i := range raw {
		raw[i] ^= mask[i]
	}
	return []byte(base64.RawURLEncoding.EncodeToString(raw))
}

// c12spliceNative builds a key string from whole 8-byte cipher blocks of two real key strings.
func c12spliceNative(issued [2]string, sel [3]int) []byte {
	var raw [2][]byte
	for k := range raw {
		r, err := base64.RawURLEncoding.DecodeString(issued[k])
		if err != nil || len(r) != 24 {
			return []byte(issued[0])
		}
		raw[k] = r
	}
	out := make([]byte, 24)
	for i := 0; i < 3; i++ {
		copy(out[8*i:8*i+8], raw[sel[i]][8*i:8*i+8])
	}
	return []byte(base64.RawURLEncoding.EncodeToString(out))
}
