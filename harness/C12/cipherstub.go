package cipher

import (
	"encoding/base64"
	"errors"
)

// transparent codec (see C20): 24 raw bytes + 8 bytes of padding, symbolic executor only
func c12stubEncode(e *base64.Encoding, src []byte) string {
	out := make([]byte, 0, len(src)+8)
	out = append(out, src...)
	out = append(out, "AAAAAAAA"...)
	return string(out)
}

func c12stubDecodeKey(dst, src []byte) (int, error) {
	if len(src) < 8 {
		return 0, errors.New("stub: short")
	}
	n := len(src) - 8
	for i := n; i < len(src); i++ {
		if src[i] != 'A' {
			return 0, errors.New("stub: bad padding")
		}
	}
	copy(dst, src[:n])
	return n, nil
}
