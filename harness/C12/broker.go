package broker

import (
	"crypto/rand"
	"time"

	"github.com/emitter-io/emitter/internal/provider/contract"
	"github.com/emitter-io/emitter/internal/provider/usage"
	"github.com/emitter-io/emitter/internal/security"
	"github.com/emitter-io/emitter/internal/security/cipher"
	"github.com/emitter-io/emitter/internal/security/license"
	"github.com/emitter-io/emitter/internal/service/keygen"
	"github.com/emitter-io/emitter/internal/verifrt"
)

var c12letters = [4]byte{'a', 'b', 'c', '+'}

func c12path(v *verifrt.T, name string, min int) []byte {
	n := min + v.Choice(v.Bound("depth")+1-min, name+"n")
	var b []byte
	for i := 0; i < n; i++ {
		b = append(b, c12letters[v.U8(name+"l", i)&3], '/')
	}
	if v.Bool(name+"hash") || n == 0 {
		b = append(b, '#', '/')
	}
	return b
}

// VerifC12: an attacker who holds an issued key string may replace characters, i.e.
// XOR any mask into the 24 raw cipher bytes (C20: string <-> raw bytes is a bijection).
// Whatever the altered string authorises must have been authorised by the original.
// The v2 (XSalsa20) and v3 (salted Salsa20) ciphers run from their real code with the
// keystream an uninterpreted function, so the verdict covers every license secret.
func VerifC12(v *verifrt.T) {
	lic := &license.V1{User: v.U32("lic_contract"), Sign: v.U32("lic_sign")}
	contracts := contract.NewSingleContractProvider(lic, usage.NewNoop())
	var ciph license.Cipher
	version := 2 + v.Choice(2, "version")
	if version == 2 {
		c, err := cipher.NewSalsa(v.Bytes(32, "sk"), v.Bytes(24, "sn"))
		v.Assert(err == nil, "C12.env.cipher")
		ciph = c
	} else {
		c, err := cipher.NewShuffle(v.Bytes(32, "hk"), v.Bytes(16, "hn"))
		v.Assert(err == nil, "C12.env.cipher")
		ciph = c
	}
	svc := &Service{contracts: contracts}
	svc.keygen = keygen.New(ciph, contracts, svc)

	// the issued key: a valid, unexpired, non-master key of the licensed contract
	key := security.Key(make([]byte, 24))
	key.SetSalt(v.U16("salt"))
	key.SetMaster(1)
	key.SetContract(lic.User)
	key.SetSignature(lic.Sign)
	key.SetPermissions(v.U8("perm"))
	v.Assert(key.SetTarget(string(c12path(v, "t", 0))) == nil, "C12.env.target")
	issued, err := ciph.EncryptKey(key)
	v.Assert(err == nil && len(issued) == 32, "C12.env.issued")

	// the altered string
	mask := v.Bytes(24, "m")
	nonzero := false
	for i := range mask {
		nonzero = verifrt.Or(nonzero, mask[i] != 0)
	}
	v.Assume(nonzero)
	if version == 3 {
		// the two salt bytes travel in clear and select the keystream: changing them re-keys the
		// whole decryption, whose outcome is pseudo-random (a computational argument, outside)
		v.Assume(mask[0] == 0 && mask[1] == 0)
	}
	altered := []byte(issued)
	if v.Symbolic() {
		for i := 0; i < 24; i++ { // transparent codec: the first 24 characters are the raw cipher bytes
			altered[i] ^= mask[i]
		}
	} else {
		altered = c12alterNative(issued, mask)
	}

	probe := c12path(v, "p", 1)
	need := v.U8("need")
	// the channel part is parsed for real; the key part is attached afterwards (under the
	// transparent codec the raw key bytes may contain the separator, real key strings never do)
	parsed := security.ParseChannel(append([]byte("K/"), probe...))
	v.Assert(parsed.ChannelType != security.ChannelInvalid, "C12.env.probe-parses")
	chAltered := &security.Channel{Key: altered, Channel: parsed.Channel, Query: parsed.Query, ChannelType: parsed.ChannelType}
	chIssued := &security.Channel{Key: []byte(issued), Channel: parsed.Channel, Query: parsed.Query, ChannelType: parsed.ChannelType}
	_, _, a := svc.Authorize(chAltered, need)
	_, _, o := svc.Authorize(chIssued, need)
	v.Reach("probed")
	if a {
		v.Assert(o, "C12.altered-key-grants-nothing-new")
	}
	v.Observe("orig", uint64(verifrt.B2U(o)))
}

// c12rand (native replay only): crypto/rand.Reader replaced by the draws the executor named
// "randint", so that the salts CreateKey picks natively are the ones of the counterexample.
type c12rand struct{ v *verifrt.T }

func (r *c12rand) Read(p []byte) (int, error) {
	x := r.v.U64("randint")
	for i := range p {
		p[len(p)-1-i] = byte(x >> (8 * uint(i)))
	}
	return len(p), nil
}

// VerifC12Splice (license v1, XTEA): the cipher works on three independent 8-byte blocks,
// so an attacker who holds two issued keys can also build strings out of whole blocks of
// both. The keys are minted by the real CreateKey from one master key (salts from
// crypto/rand, arbitrary), encrypted by the real XTEA code under an arbitrary secret; every
// one of the six mixed block selections is decrypted by the real code and presented to the
// real Authorize: it must grant nothing that neither of the two issued keys grants.
func VerifC12Splice(v *verifrt.T) {
	lic := &license.V1{User: v.U32("lic_contract"), Sign: v.U32("lic_sign")}
	contracts := contract.NewSingleContractProvider(lic, usage.NewNoop())
	x := new(cipher.Xtea)
	verifrt.SetUnexported(x, "key", [4]uint32{v.U32("xk", 0), v.U32("xk", 1), v.U32("xk", 2), v.U32("xk", 3)})
	svc := &Service{contracts: contracts}
	svc.keygen = keygen.New(x, contracts, svc)
	if !v.Symbolic() {
		saved := rand.Reader
		rand.Reader = &c12rand{v}
		defer func() { rand.Reader = saved }()
	}

	master := security.Key(make([]byte, 24))
	master.SetSalt(v.U16("msalt"))
	master.SetMaster(1)
	master.SetContract(lic.User)
	master.SetSignature(lic.Sign)
	master.SetPermissions(security.AllowMaster)
	masterStr, err := x.EncryptKey(master)
	v.Assert(err == nil, "C12.env.master")

	t0 := time.Now().Unix()
	var issued [2]string
	var hasExp [2]bool
	var exp [2]uint32
	targets := []string{"a/", "#/"}
	for k := 0; k < 2; k++ {
		access := v.U8("access", k)
		v.Assume(access&security.AllowMaster == 0)
		expires := time.Unix(0, 0)
		hasExp[k] = k == 0 && v.Bool("expires", k) // (quick: only the first key may expire)
		if v.Bound("splicefull") == 1 {
			hasExp[k] = v.Bool("expires", k)
		}
		if hasExp[k] {
			exp[k] = v.U32("exp", k)
			v.Assume(exp[k] != 0)
			expires = time.Unix(int64(exp[k])+1262304000, 0)
		}
		ti := 0
		if k == 1 || v.Bound("splicefull") == 1 {
			ti = v.Choice(len(targets), "target", k)
		}
		s, kerr := svc.keygen.CreateKey(masterStr, targets[ti], access, expires)
		v.Assert(kerr == nil && len(s) == 32, "C12.env.issued")
		issued[k] = s
	}
	// the spliced string: block i comes from issued[sel_i]; not all from the same key
	var sel [3]int
	for i := range sel {
		sel[i] = v.Choice(2, "sel", i)
	}
	v.Assume(!(sel[0] == sel[1] && sel[1] == sel[2]))
	var altered []byte
	if v.Symbolic() {
		altered = []byte(issued[0]) // transparent codec: the first 24 characters are the raw cipher bytes
		for i := 0; i < 3; i++ {
			copy(altered[8*i:8*i+8], issued[sel[i]][8*i:8*i+8])
		}
	} else {
		altered = c12spliceNative(issued, sel)
	}
	probe := []string{"a/", "b/"}[v.Choice(2, "probe")]
	need := v.U8("need")
	parsed := security.ParseChannel([]byte("K/" + probe))
	v.Assert(parsed.ChannelType != security.ChannelInvalid, "C12.env.probe-parses")
	mk := func(key []byte) *security.Channel {
		return &security.Channel{Key: key, Channel: parsed.Channel, Query: parsed.Query, ChannelType: parsed.ChannelType}
	}
	_, _, a := svc.Authorize(mk(altered), need)
	_, _, o0 := svc.Authorize(mk([]byte(issued[0])), need)
	_, _, o1 := svc.Authorize(mk([]byte(issued[1])), need)
	t1 := time.Now().Unix()
	v.Reach("spliced-probed")
	// no key involved expires while the three calls are in progress
	for k := 0; k < 2; k++ {
		if hasExp[k] {
			at := int64(exp[k]) + 1262304000
			v.Assume(at < t0 || at > t1)
		}
	}
	if a {
		v.Assert(o0 || o1, "C12.spliced-key-grants-nothing-new")
	}
	v.Observe("a", uint64(verifrt.B2U(a)))
}
