package broker

import (
	"github.com/emitter-io/emitter/internal/provider/contract"
	"github.com/emitter-io/emitter/internal/provider/usage"
	"github.com/emitter-io/emitter/internal/security"
	"github.com/emitter-io/emitter/internal/security/cipher"
	"github.com/emitter-io/emitter/internal/security/license"
	"github.com/emitter-io/emitter/internal/service/keygen"
	"github.com/emitter-io/emitter/internal/verifrt"
)

var c12letters = [4]byte{'a', 'b', 'c', '+'}

func c12path(v *verifrt.T, name string, min int) []byte {
	n := min + v.Choice(v.Bound("depth")+1-min, name+"n")
	var b []byte
	for i := 0; i < n; i++ {
		b = append(b, c12letters[v.U8(name+"l", i)&3], '/')
	}
	if v.Bool(name+"hash") || n == 0 {
		b = append(b, '#', '/')
	}
	return b
}

// VerifC12: an attacker who holds an issued key string may replace characters, i.e.
// XOR any mask into the 24 raw cipher bytes (C20: string <-> raw bytes is a bijection).
// Whatever the altered string authorises must have been authorised by the original.
// The v2 (XSalsa20) and v3 (salted Salsa20) ciphers run from their real code with the
// keystream an uninterpreted function, so the verdict covers every license secret.
func VerifC12(v *verifrt.T) {
	lic := &license.V1{User: v.U32("lic_contract"), Sign: v.U32("lic_sign")}
	contracts := contract.NewSingleContractProvider(lic, usage.NewNoop())
	var ciph license.Cipher
	version := 2 + v.Choice(2, "version")
	if version == 2 {
		c, err := cipher.NewSalsa(v.Bytes(32, "sk"), v.Bytes(24, "sn"))
		v.Assert(err == nil, "C12.env.cipher")
		ciph = c
	} else {
		c, err := cipher.NewShuffle(v.Bytes(32, "hk"), v.Bytes(16, "hn"))
		v.Assert(err == nil, "C12.env.cipher")
		ciph = c
	}
	svc := &Service{contracts: contracts}
	svc.keygen = keygen.New(ciph, contracts, svc)

	// the issued key: a valid, unexpired, non-master key of the licensed contract
	key := security.Key(make([]byte, 24))
	key.SetSalt(v.U16("salt"))
	key.SetMaster(1)
	key.SetContract(lic.User)
	key.SetSignature(lic.Sign)
	key.SetPermissions(v.U8("perm"))
	v.Assert(key.SetTarget(string(c12path(v, "t", 0))) == nil, "C12.env.target")
	issued, err := ciph.EncryptKey(key)
	v.Assert(err == nil && len(issued) == 32, "C12.env.issued")

	// the altered string
	mask := v.Bytes(24, "m")
	nonzero := false
	for i := range mask {
		nonzero = verifrt.Or(nonzero, mask[i] != 0)
	}
	v.Assume(nonzero)
	if version == 3 {
		// the two salt bytes travel in clear and select the keystream: changing them re-keys the
		// whole decryption, whose outcome is pseudo-random (a computational argument, outside)
		v.Assume(mask[0] == 0 && mask[1] == 0)
	}
	altered := []byte(issued)
	if v.Symbolic() {
		for i := 0; i < 24; i++ { // transparent codec: the first 24 characters are the raw cipher bytes
			altered[i] ^= mask[i]
		}
	} else {
		altered = c12alterNative(issued, mask)
	}

	probe := c12path(v, "p", 1)
	need := v.U8("need")
	// the channel part is parsed for real; the key part is attached afterwards (under the
	// transparent codec the raw key bytes may contain the separator, real key strings never do)
	parsed := security.ParseChannel(append([]byte("K/"), probe...))
	v.Assert(parsed.ChannelType != security.ChannelInvalid, "C12.env.probe-parses")
	chAltered := &security.Channel{Key: altered, Channel: parsed.Channel, Query: parsed.Query, ChannelType: parsed.ChannelType}
	chIssued := &security.Channel{Key: []byte(issued), Channel: parsed.Channel, Query: parsed.Query, ChannelType: parsed.ChannelType}
	_, _, a := svc.Authorize(chAltered, need)
	_, _, o := svc.Authorize(chIssued, need)
	v.Reach("probed")
	if a {
		v.Assert(o, "C12.altered-key-grants-nothing-new")
	}
	v.Observe("orig", uint64(verifrt.B2U(o)))
}
