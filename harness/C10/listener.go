package listener

import (
	"net"
	"sync"
	"time"

	"github.com/kelindar/rate"

	"github.com/emitter-io/emitter/internal/network/mqtt"
	"github.com/emitter-io/emitter/internal/verifrt"
)

// ---- socket stand-in: like a real net.Conn, one Write call is delivered whole ----

type c10sock struct {
	mu     sync.Mutex
	out    []byte
	writes int
}

func (s *c10sock) Write(p []byte) (int, error) {
	s.mu.Lock()
	s.out = append(s.out, p...)
	s.writes++
	s.mu.Unlock()
	return len(p), nil
}
func (s *c10sock) Read(p []byte) (int, error)         { return 0, nil }
func (s *c10sock) Close() error                       { return nil }
func (s *c10sock) LocalAddr() net.Addr                { return nil }
func (s *c10sock) RemoteAddr() net.Addr               { return nil }
func (s *c10sock) SetDeadline(t time.Time) error      { return nil }
func (s *c10sock) SetReadDeadline(t time.Time) error  { return nil }
func (s *c10sock) SetWriteDeadline(t time.Time) error { return nil }

// c10newConn builds the buffering connection as newConn does, minus the timer goroutine
// (the periodic flush is a thread of the harness).
func c10newConn(sock net.Conn) *Conn {
	c := &Conn{socket: sock, reader: sniffer{source: sock}, limit: rate.New(1, time.Second)}
	// a limiter whose allowance only changes when the harness says so
	verifrt.SetUnexported(c.limit, "rate", uint64(0))
	verifrt.SetUnexported(c.limit, "max", uint64(1)<<62)
	return c
}

// c10throttle decides what the limiter answers to the next Limit() call.
func c10throttle(c *Conn, limited bool) {
	verifrt.SetUnexported(c.limit, "allowance", verifrt.IteU64(limited, 0, uint64(time.Second)))
}

// ---- independent decoder of the subscriber's byte stream ----

type c10pkt struct {
	pub, seq int
	data     byte
}

// c10decode splits the stream into PUBLISH packets (QoS 0, remaining length < 128) and
// returns them; ok is false when the stream is not a sequence of complete packets of
// the shape the publishers sent.
func c10decode(b []byte) (pkts []c10pkt, ok bool) {
	pkts, _, ok = c10decodeAcks(b)
	return
}

// c10decodeAcks also accepts PINGRESP packets (the subscriber's own acknowledgements)
// between the publishes and counts them.
func c10decodeAcks(b []byte) (pkts []c10pkt, acks int, ok bool) {
	for len(b) > 0 {
		if len(b) >= 2 && b[0] == 0xD0 && b[1] == 0 {
			acks++
			b = b[2:]
			continue
		}
		if len(b) < 2 || b[0] != 0x30 || b[1] >= 128 {
			return nil, 0, false
		}
		n := int(b[1])
		if len(b) < 2+n {
			return nil, 0, false
		}
		body := b[2 : 2+n]
		b = b[2+n:]
		// topic: "a" (straight into the connection) or "a/" (through the broker)
		if len(body) < 2 || body[0] != 0 || (body[1] != 1 && body[1] != 2) || len(body) != 2+int(body[1])+3 {
			return nil, 0, false
		}
		topic := body[2]
		if body[1] == 2 && body[3] != '/' {
			return nil, 0, false
		}
		pl := body[2+int(body[1]):]
		if topic != 'a'+pl[0] {
			return nil, 0, false
		}
		pkts = append(pkts, c10pkt{pub: int(pl[0]), seq: int(pl[1]), data: pl[2]})
	}
	return pkts, acks, true
}

// VerifC10Listener: two publisher threads each encode their messages, in order, straight
// into one subscriber's buffering connection while a third thread plays the periodic
// flush; every limiter answer is arbitrary. After the threads end and the queue is
// flushed once more, the bytes on the socket must be whole packets, each publisher's
// messages in publishing order, none lost or duplicated, payloads intact.
func VerifC10Listener(v *verifrt.T) {
	sock := &c10sock{}
	conn := c10newConn(sock)
	nmsg := v.Bound("msgs")
	nflush := v.Bound("flushes")
	const npub = 2
	var data [npub][8]byte
	pub := func(id int) func() {
		return func() {
			for k := 0; k < nmsg; k++ {
				data[id][k] = v.U8("data", id, k)
				c10throttle(conn, v.Bool("limited", id, k))
				p := mqtt.Publish{Topic: []byte{byte('a' + id)}, Payload: []byte{byte(id), byte(k), data[id][k]}}
				_, err := p.EncodeTo(conn)
				v.Assert(err == nil, "C10.send-succeeds")
			}
		}
	}
	flusher := func() {
		for k := 0; k < nflush; k++ {
			conn.Flush()
		}
	}
	v.Threads(v.Bound("preemptions"), pub(0), pub(1), flusher)
	conn.Flush()
	v.Reach("all-threads-done")
	pkts, ok := c10decode(sock.out)
	v.Assert(ok, "C10.stream-is-whole-packets")
	v.Assert(len(pkts) == npub*nmsg, "C10.no-loss-no-duplication")
	var next [npub]int
	for _, p := range pkts {
		v.Assert(p.pub < npub, "C10.stream-is-whole-packets")
		v.Assert(p.seq == next[p.pub], "C10.per-publisher-order")
		v.Assert(p.data == data[p.pub][p.seq], "C10.payload-intact")
		next[p.pub]++
	}
	v.Observe("writes", uint64(sock.writes))
	v.Observe("len", uint64(len(sock.out)))
}

// exported for the broker-level harness (package broker)
func VerifC10Conn(sock net.Conn) *Conn         { return c10newConn(sock) }
func VerifC10Throttle(c *Conn, limited bool)   { c10throttle(c, limited) }
func VerifC10Sock() (net.Conn, func() []byte)  { s := &c10sock{}; return s, func() []byte { return s.out } }
func VerifC10Decode(b []byte) ([][3]int, int, bool) {
	pk, acks, ok := c10decodeAcks(b)
	var out [][3]int
	for _, p := range pk {
		out = append(out, [3]int{p.pub, p.seq, int(p.data)})
	}
	return out, acks, ok
}
