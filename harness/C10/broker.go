package broker

import (
	"bytes"
	"time"

	"github.com/emitter-io/stats"
	"github.com/kelindar/rate"

	"github.com/emitter-io/emitter/internal/config"
	"github.com/emitter-io/emitter/internal/message"
	"github.com/emitter-io/emitter/internal/network/listener"
	"github.com/emitter-io/emitter/internal/network/mqtt"
	"github.com/emitter-io/emitter/internal/provider/contract"
	"github.com/emitter-io/emitter/internal/provider/storage"
	"github.com/emitter-io/emitter/internal/provider/usage"
	"github.com/emitter-io/emitter/internal/security"
	"github.com/emitter-io/emitter/internal/security/license"
	"github.com/emitter-io/emitter/internal/service/keygen"
	"github.com/emitter-io/emitter/internal/service/pubsub"
	"github.com/emitter-io/emitter/internal/verifrt"
)

type c10env struct {
	svc  *Service
	ciph *hcipher
	ps   *pubsub.Service
	trie *message.Trie
	rw   string
}

func c10new() *c10env {
	e := &c10env{ciph: &hcipher{}, trie: message.NewTrie()}
	lic := &license.V1{User: 7, Sign: 9}
	contracts := contract.NewSingleContractProvider(lic, usage.NewNoop())
	e.svc = &Service{contracts: contracts, subscriptions: e.trie, License: lic, Config: &config.Config{}, measurer: stats.NewNoop()}
	e.svc.keygen = keygen.New(e.ciph, contracts, e.svc)
	e.ps = pubsub.New(e.svc, storage.NewNoop(), &hnotifier{}, e.trie)
	e.svc.pubsub = e.ps
	k := security.Key(make([]byte, 24))
	k.SetMaster(1)
	k.SetContract(7)
	k.SetSignature(9)
	k.SetPermissions(security.AllowReadWrite)
	k.SetTarget("#/")
	e.rw = e.ciph.add(k)
	return e
}

// VerifC10Broker: the whole delivery path under concurrency. One subscriber (stable
// subscriptions on the publishers' channels) sits behind the real buffering
// connection; two publisher connections each send their PUBLISH packets through
// Conn.onReceive (authorisation, trie lookup, synchronous Send to the subscriber) while
// a third thread plays the 1 s flush, a fourth connection churns an unrelated
// subscription and the subscriber's own goroutine writes ping acknowledgements. Limiter answers are arbitrary.
func VerifC10Broker(v *verifrt.T) {
	e := c10new()
	sock, out := listener.VerifC10Sock()
	lconn := listener.VerifC10Conn(sock)
	sub, _ := hconn(e.svc, 0)
	sub.socket = lconn
	pubA, _ := hconn(e.svc, 1)
	pubB, _ := hconn(e.svc, 2)
	other, _ := hconn(e.svc, 3)
	e.svc.connections = 4
	v.Assert(e.ps.OnSubscribe(sub, []byte(e.rw+"/a/")) == nil, "C10.env.subscribed")
	v.Assert(e.ps.OnSubscribe(sub, []byte(e.rw+"/b/")) == nil, "C10.env.subscribed")
	nmsgs := [2]int{v.Bound("bmsgsA"), v.Bound("bmsgsB")}
	const npub = 2
	var data [npub][8]byte
	pub := func(id int, c *Conn) func() {
		return func() {
			for k := 0; k < nmsgs[id]; k++ {
				data[id][k] = v.U8("data", id, k)
				listener.VerifC10Throttle(lconn, v.Bool("limited", id, k))
				err := c.onReceive(&mqtt.Publish{Topic: []byte(e.rw + "/" + string(rune('a'+id)) + "/"), Payload: []byte{byte(id), byte(k), data[id][k]}})
				v.Assert(err == nil, "C10.send-succeeds")
			}
		}
	}
	flusher := func() {
		for k := 0; k < v.Bound("bflushes"); k++ {
			lconn.Flush()
		}
	}
	churn := func() {
		for k := 0; k < v.Bound("churn"); k++ {
			e.ps.OnSubscribe(other, []byte(e.rw+"/z/"))
			e.ps.OnUnsubscribe(other, []byte(e.rw+"/z/"))
		}
	}
	// the subscriber's own goroutine answers its pings on the same connection
	acker := func() {
		for k := 0; k < v.Bound("acks"); k++ {
			listener.VerifC10Throttle(lconn, v.Bool("limited-ack", k))
			v.Assert(sub.onReceive(&mqtt.Pingreq{}) == nil, "C10.send-succeeds")
		}
	}
	threads := []func(){pub(0, pubA), pub(1, pubB)}
	if v.Bound("bflushes") > 0 {
		threads = append(threads, flusher)
	}
	if v.Bound("churn") > 0 {
		threads = append(threads, churn)
	}
	if v.Bound("acks") > 0 {
		threads = append(threads, acker)
	}
	v.Threads(v.Bound("bpreemptions"), threads...)
	lconn.Flush()
	v.Reach("all-threads-done")
	pkts, acks, ok := listener.VerifC10Decode(out())
	v.Assert(ok, "C10.stream-is-whole-packets")
	v.Assert(acks == v.Bound("acks"), "C10.no-loss-no-duplication")
	v.Assert(len(pkts) == nmsgs[0]+nmsgs[1], "C10.no-loss-no-duplication")
	var next [npub]int
	for _, p := range pkts {
		v.Assert(p[0] < npub, "C10.stream-is-whole-packets")
		v.Assert(p[1] == next[p[0]], "C10.per-publisher-order")
		v.Assert(p[2] == int(data[p[0]][p[1]]), "C10.payload-intact")
		next[p[0]]++
	}
	v.Observe("len", uint64(len(out())))
}

// VerifC10Throttled: "whatever the broker's ... rate limiting decide": a publisher whose
// connection is read-throttled (one packet per 80 ms; the check right after a packet and the
// one 50 ms later are refused, the third passes) is delayed, not cut: the real Process loop
// on its byte stream - CONNECT and sequence-numbered PUBLISH packets with arbitrary payload
// bytes - delivers every message to the stable subscriber, once and in order.
func VerifC10Throttled(v *verifrt.T) {
	e := c10new()
	sub, ssock := hconn(e.svc, 0)
	pub, psock := hconn(e.svc, 1)
	e.svc.connections = 2
	v.Assert(e.ps.OnSubscribe(sub, []byte(e.rw+"/a/")) == nil, "C10.env.subscribed")
	hLimitScript = nil
	pub.limit = new(rate.Limiter)
	if v.Bool("throttled") {
		if v.Symbolic() {
			hLimitScript = []bool{false, true, true, false, true, true, false, true, true, false, true, true, false, true, true, false}
		} else {
			pub.limit = rate.New(1, 80*time.Millisecond)
		}
	}
	n := v.Bound("tmsgs")
	var stream bytes.Buffer
	(&mqtt.Connect{ProtoName: []byte("MQTT"), Version: 4, ClientID: []byte("p")}).EncodeTo(&stream)
	data := make([]byte, n)
	for k := 0; k < n; k++ {
		data[k] = v.U8("data", k)
		(&mqtt.Publish{Topic: []byte(e.rw + "/a/"), Payload: []byte{byte(k), data[k]}}).EncodeTo(&stream)
	}
	stream.Write([]byte{0xe0, 0x00}) // DISCONNECT
	psock.in = append([]byte(nil), stream.Bytes()...)
	before := len(ssock.writes)
	pub.Process()
	v.Reach("publisher-session-done")
	got := ssock.writes[before:]
	v.Assert(len(got) == n, "C10.throttled.no-loss-no-duplication")
	for k := 0; k < len(got) && k < n; k++ {
		p, err := mqtt.DecodePacket(bytes.NewReader(got[k]), 65536)
		v.Assert(err == nil, "C10.throttled.stream-is-whole-packets")
		pp, ok := p.(*mqtt.Publish)
		v.Assert(ok && len(pp.Payload) == 2 && int(pp.Payload[0]) == k && pp.Payload[1] == data[k], "C10.throttled.per-publisher-order")
	}
	v.Observe("n", uint64(len(got)))
}
