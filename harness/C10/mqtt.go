package mqtt

import (
	"bytes"

	"github.com/emitter-io/emitter/internal/verifrt"
)

type c10writer struct {
	bytes.Buffer
	calls int
}

func (w *c10writer) Write(p []byte) (int, error) {
	w.calls++
	return w.Buffer.Write(p)
}

// payload lengths around every size at which an encoder might change strategy: the
// remaining-length boundaries, powers of two up to the 64 KiB buffer
var c10Lens = []int{0, 1, 126, 127, 128, 1023, 1024, 2048, 4095, 4096, 8191, 8192, 16382, 16383, 16384, 32767, 32768, 60000, 65000}

// VerifC10OneWrite: the connection types below the encoder (listener.Conn, the WebSocket
// adapter) serialise *Write calls*, not packets; concurrent delivery therefore keeps packets
// whole only if every packet reaches the connection in exactly one Write. Checked for every
// packet type the broker sends to subscribers and for PUBLISH at every length in the list,
// with arbitrary header fields and end bytes.
func VerifC10OneWrite(v *verifrt.T) {
	n := c10Lens[v.Choice(len(c10Lens), "plen")]
	p := &Publish{
		Header:    Header{DUP: v.Bool("dup"), Retain: v.Bool("retain"), QOS: v.U8("qos")},
		Topic:     v.Bytes(1+v.Choice(3, "tl"), "topic"),
		Payload:   make([]byte, n),
		MessageID: v.U16("mid"),
	}
	v.Assume(p.QOS <= 2)
	if n > 0 {
		p.Payload[0] = v.U8("first")
		p.Payload[n-1] = v.U8("last")
	}
	others := []Message{
		&Connack{ReturnCode: v.U8("rc")},
		&Puback{MessageID: v.U16("mid")},
		&Suback{MessageID: v.U16("mid"), Qos: []uint8{v.U8("q0"), v.U8("q1")}},
		&Unsuback{MessageID: v.U16("mid")},
		&Pingresp{},
	}
	var w c10writer
	_, err := p.EncodeTo(&w)
	v.Reach("publish-encoded")
	if err == nil {
		v.Assert(w.calls == 1, "C10.publish-reaches-the-connection-in-one-write")
	} else {
		v.Assert(w.calls == 0, "C10.refused-publish-writes-nothing")
	}
	for _, m := range others {
		var w c10writer
		_, err := m.EncodeTo(&w)
		v.Assert(err == nil && w.calls == 1, "C10.packet-reaches-the-connection-in-one-write")
	}
	v.Observe("len", uint64(w.Len()))
}
