package websocket

import (
	"io"
	"net"
	"time"

	"github.com/emitter-io/emitter/internal/network/mqtt"
	"github.com/emitter-io/emitter/internal/verifrt"
)

// ---- frame sink standing in for the gorilla connection: like the real one it supports
// exactly one writer at a time and does nothing to protect itself ----

type c10ws struct {
	open     bool
	overlap  bool
	cur      []byte
	messages [][]byte
}

type c10wsWriter struct{ c *c10ws }

func (w c10wsWriter) Write(p []byte) (int, error) {
	w.c.cur = append(w.c.cur, p...)
	return len(p), nil
}
func (w c10wsWriter) Close() error {
	w.c.messages = append(w.c.messages, w.c.cur)
	w.c.cur = nil
	w.c.open = false
	return nil
}

func (c *c10ws) NextReader() (int, io.Reader, error) { return 0, nil, io.EOF }
func (c *c10ws) NextWriter(messageType int) (io.WriteCloser, error) {
	if c.open {
		c.overlap = true
	}
	c.open = true
	c.cur = nil
	return c10wsWriter{c}, nil
}
func (c *c10ws) Close() error                       { return nil }
func (c *c10ws) LocalAddr() net.Addr                { return nil }
func (c *c10ws) RemoteAddr() net.Addr               { return nil }
func (c *c10ws) SetReadDeadline(t time.Time) error  { return nil }
func (c *c10ws) SetWriteDeadline(t time.Time) error { return nil }

// VerifC10WS: publisher threads encode straight into one subscriber's WebSocket transport.
// Every WebSocket message must carry exactly one whole PUBLISH packet, writers must never
// overlap, and each publisher's messages must appear in publishing order, once each.
func VerifC10WS(v *verifrt.T) {
	ws := &c10ws{}
	conn := newConn(ws)
	nmsg := v.Bound("msgs")
	const npub = 3
	var data [npub][8]byte
	pub := func(id int) func() {
		return func() {
			for k := 0; k < nmsg; k++ {
				data[id][k] = v.U8("data", id, k)
				p := mqtt.Publish{Topic: []byte{byte('a' + id)}, Payload: []byte{byte(id), byte(k), data[id][k]}}
				_, err := p.EncodeTo(conn)
				v.Assert(err == nil, "C10.send-succeeds")
			}
		}
	}
	v.Threads(v.Bound("preemptions"), pub(0), pub(1), pub(2))
	v.Reach("all-threads-done")
	v.Assert(!ws.overlap && !ws.open, "C10.ws-writers-never-overlap")
	v.Assert(len(ws.messages) == npub*nmsg, "C10.no-loss-no-duplication")
	var next [npub]int
	for _, m := range ws.messages {
		ok := len(m) == 8 && m[0] == 0x30 && m[1] == 6 && m[2] == 0 && m[3] == 1 && m[5] < npub && m[4] == 'a'+m[5]
		v.Assert(ok, "C10.stream-is-whole-packets")
		id := int(m[5])
		v.Assert(int(m[6]) == next[id], "C10.per-publisher-order")
		v.Assert(m[7] == data[id][next[id]], "C10.payload-intact")
		next[id]++
	}
	v.Observe("messages", uint64(len(ws.messages)))
}
