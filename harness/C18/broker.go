package broker

import (
	"bytes"
	"encoding/json"
	"errors"
	"strings"
	"time"

	"github.com/emitter-io/address"
	"github.com/emitter-io/stats"

	"github.com/kelindar/binary/nocopy"

	"github.com/emitter-io/emitter/internal/config"
	"github.com/emitter-io/emitter/internal/event"
	"github.com/emitter-io/emitter/internal/message"
	"github.com/emitter-io/emitter/internal/network/mqtt"
	"github.com/emitter-io/emitter/internal/provider/contract"
	"github.com/emitter-io/emitter/internal/provider/storage"
	"github.com/emitter-io/emitter/internal/provider/usage"
	"github.com/emitter-io/emitter/internal/security"
	"github.com/emitter-io/emitter/internal/security/hash"
	"github.com/emitter-io/emitter/internal/security/license"
	"github.com/emitter-io/emitter/internal/service/keygen"
	"github.com/emitter-io/emitter/internal/service/presence"
	"github.com/emitter-io/emitter/internal/service/pubsub"
	"github.com/emitter-io/emitter/internal/verifrt"
)

// ---- stand-ins (symbolic executor only) ----

var c18req presence.Request

func c18Unmarshal(data []byte, v interface{}) error {
	switch p := v.(type) {
	case *presence.Request:
		*p = c18req
		return nil
	}
	return errors.New("stub: unexpected json target")
}

// notification / response bodies as "event|channel|id|username"
func c18Marshal(v interface{}) ([]byte, error) {
	switch n := v.(type) {
	case *presence.Notification:
		return []byte(string(n.Event) + "|" + n.Channel + "|" + n.Who.ID + "|" + n.Who.Username), nil
	}
	return []byte("{}"), nil
}

func c18Unique(id security.ID, prefix uint64, salt string) string {
	return "conn" + string(rune('0'+int(id)))
}

func c18Hardware() address.Fingerprint { return 99 }

type c18survey struct{}

func (c18survey) Query(string, []byte) (message.Awaiter, error) { return nil, errors.New("no cluster") }

type c18note struct{ event, channel, id, user string }

func c18decode(v *verifrt.T, raw []byte) []c18note {
	var out []c18note
	for _, w := range [][]byte{raw} {
		p, err := mqtt.DecodePacket(bytes.NewReader(w), 65536)
		if err != nil {
			continue
		}
		pub, ok := p.(*mqtt.Publish)
		if !ok {
			continue
		}
		if v.Symbolic() {
			f := strings.Split(string(pub.Payload), "|")
			if len(f) == 4 {
				out = append(out, c18note{f[0], f[1], f[2], f[3]})
			}
		} else {
			var n presence.Notification
			if json.Unmarshal(pub.Payload, &n) == nil {
				out = append(out, c18note{string(n.Event), n.Channel, n.Who.ID, n.Who.Username})
			}
		}
	}
	return out
}

// the unrelated third channel carries a reserved word of the API (emitter/presence/) as an ordinary name
var c18chans = []string{"a/", "a/b/", "presence/"}

// the scripted histories also use b/a/: the words of a/b/ in another order (same fold in the
// per-connection subscription counters)
var c18all = []string{"a/", "a/b/", "presence/", "b/a/"}

// one scripted step: op (0 subscribe, 1 unsubscribe, 2 disconnect, 3 presence request), who, channel index
type c18step struct{ op, who, ch int }

// is channel x on channel p or below it
func c18under(x, p string) bool { return strings.HasPrefix(x, p) }

// VerifC18: histories of two clients subscribing / unsubscribing / disconnecting and a
// watcher issuing presence requests (status and/or changes, on exact and parent
// channels); the notifier is drained after every operation.
func VerifC18(v *verifrt.T) { c18history(v, nil) }

// VerifC18Scripted: the same oracle on longer histories of fixed shape around the places
// where the per-connection bookkeeping can lose a subscription: two filters with the same
// fold on one connection, removed in either order, followed by a disconnect - watched by a
// presence-change request on the parent and checked by the final status sweep.
func VerifC18Scripted(v *verifrt.T) {
	scripts := [][]c18step{
		{{3, 0, 0}, {0, 0, 1}, {0, 0, 3}, {1, 0, 3}, {2, 0, 0}},            // watch a/; alice: a/b/, b/a/, leave b/a/, disconnect
		{{3, 0, 0}, {0, 0, 1}, {0, 0, 3}, {1, 0, 1}, {2, 0, 0}},            // ... leave a/b/ first
		{{3, 0, 0}, {0, 0, 3}, {0, 0, 1}, {1, 0, 3}, {1, 0, 1}, {0, 0, 1}}, // both removed, one taken again
		{{3, 0, 0}, {0, 0, 1}, {0, 1, 1}, {0, 0, 1}, {1, 0, 1}, {2, 1, 0}}, // duplicate subscribe, two clients
	}
	c18history(v, scripts[v.Choice(len(scripts), "script")])
}

func c18history(v *verifrt.T, script []c18step) {
	c18chans := c18chans
	if script != nil {
		c18chans = c18all
	}
	ciph := &hcipher{}
	trie := message.NewTrie()
	lic := &license.V1{User: 7, Sign: 9}
	contracts := contract.NewSingleContractProvider(lic, usage.NewNoop())
	svc := &Service{contracts: contracts, subscriptions: trie, License: lic, Config: &config.Config{}, measurer: stats.NewNoop()}
	svc.keygen = keygen.New(ciph, contracts, svc)
	ps := pubsub.New(svc, storage.NewNoop(), svc, trie)
	svc.pubsub = ps
	svc.presence = presence.New(svc, ps, c18survey{}, trie)
	k := security.Key(make([]byte, 24))
	k.SetMaster(1)
	k.SetContract(7)
	k.SetSignature(9)
	k.SetPermissions(security.AllowReadWrite | security.AllowPresence)
	k.SetTarget("#/")
	key := ciph.add(k)

	names := []string{"alice", "bob", "watcher"}
	conns := make([]*Conn, 3)
	socks := make([]*hsock, 3)
	alive := []bool{true, true, true}
	for i := range conns {
		conns[i], socks[i] = hconn(svc, i)
		conns[i].username = names[i]
		conns[i].guid = conns[i].luid.Unique(svc.ID(), "emitter")
	}
	w := 2
	if !v.Symbolic() {
		socks[w].slowFirst = 20 * time.Millisecond // a slow watcher: concurrent senders would overtake one another
	}
	// reference state
	held := [2]map[string]bool{{}, {}} // client -> channel -> subscribed
	watching := ""                     // channel the watcher asked changes for ("" = none)
	type exp struct{ event, channel, id, user string }
	var expected []exp
	seen := 0

	n := v.Bound("ops")
	if script != nil {
		n = len(script)
	}
	pick := func(i int) (op, who, ch int) {
		if script != nil {
			return script[i].op, script[i].who, script[i].ch
		}
		op = v.Choice(4, "op", i)
		if op != 3 {
			who = v.Choice(2, "who", i)
		}
		if op != 2 {
			ch = v.Choice(len(c18chans), "ch", i)
		}
		return
	}
	for i := 0; i < n; i++ {
		op, who, chi := pick(i)
		switch op {
		case 0: // subscribe
			x, ch := who, c18chans[chi]
			if !alive[x] {
				continue
			}
			err := ps.OnSubscribe(conns[x], []byte(key+"/"+ch))
			v.Assert(err == nil, "C18.env.subscribe-accepted")
			if !held[x][ch] {
				held[x][ch] = true
				if watching != "" && c18under(ch, watching) {
					expected = append(expected, exp{"subscribe", ch, conns[x].ID(), names[x]})
				}
			}
		case 1: // unsubscribe
			x, ch := who, c18chans[chi]
			if !alive[x] {
				continue
			}
			err := ps.OnUnsubscribe(conns[x], []byte(key+"/"+ch))
			v.Assert(err == nil, "C18.env.unsubscribe-accepted")
			if held[x][ch] {
				delete(held[x], ch)
				if watching != "" && c18under(ch, watching) {
					expected = append(expected, exp{"unsubscribe", ch, conns[x].ID(), names[x]})
				}
			}
		case 2: // disconnect
			x := who
			if !alive[x] {
				continue
			}
			alive[x] = false
			conns[x].Close()
			for _, ch := range c18chans { // one unsubscribe per subscription that ends
				if held[x][ch] {
					delete(held[x], ch)
					if watching != "" && c18under(ch, watching) {
						expected = append(expected, exp{"unsubscribe", ch, conns[x].ID(), names[x]})
					}
				}
			}
		case 3: // presence request by the watcher
			ch := c18chans[chi]
			req := presence.Request{Key: key, Channel: ch, Status: v.Bool("status", i)}
			chg := 1 // scripted: ask for changes
			if script == nil {
				chg = v.Choice(3, "changes", i)
			}
			switch chg {
			case 1:
				t := true
				req.Changes = &t
			case 2:
				f := false
				req.Changes = &f
			}
			var payload []byte
			if v.Symbolic() {
				c18req = req
			} else {
				payload, _ = json.Marshal(&req)
			}
			resp, ok := svc.presence.OnRequest(conns[w], payload)
			v.Assert(ok, "C18.env.presence-request-accepted")
			if req.Changes != nil {
				if *req.Changes {
					if watching == "" { // one watched channel at a time keeps the reference simple
						watching = ch
					} else {
						v.Assume(watching == ch)
					}
				} else if watching == ch {
					watching = ""
				}
			}
			if req.Status {
				r := resp.(*presence.Response)
				// exactly the connections that would receive a message published to ch
				want := map[string]string{}
				for x := 0; x < 2; x++ {
					for sub := range held[x] {
						if c18under(ch, sub) {
							want[conns[x].ID()] = names[x]
						}
					}
				}
				v.Assert(len(r.Who) == len(want), "C18.status.exactly-the-receivers")
				for _, info := range r.Who {
					u, ok := want[info.ID]
					v.Assert(ok && u == info.Username, "C18.status.ids-and-usernames")
				}
			}
		}
		verifrt.RunGoroutines() // the notifier drains its queue between client requests
		if !v.Symbolic() {
			time.Sleep(60 * time.Millisecond) // natively the poller is a real goroutine
		}
		// notifications received by the watcher so far
		var got []c18note
		for _, raw := range socks[w].writes {
			got = append(got, c18decode(v, raw)...)
		}
		v.Assert(len(got) == len(expected), "C18.changes.exactly-one-notification-per-transition")
		// the notifications of this operation follow those of the earlier ones (order across
		// operations); the subscriptions a disconnect ends all end at once, so among themselves
		// they may be reported in any order
		used := make([]bool, len(expected))
		for j := seen; j < len(got) && j < len(expected); j++ {
			matched := false
			for k := seen; k < len(expected) && !matched; k++ {
				e := expected[k]
				if !used[k] && got[j].event == e.event && got[j].channel == e.channel && got[j].id == e.id && got[j].user == e.user {
					used[k], matched = true, true
				}
			}
			v.Assert(matched, "C18.changes.content-and-order")
		}
		seen = len(got)
	}
	v.Reach("history-done")
	// whatever the history was, a status request on every channel now lists exactly the
	// connections that still hold a matching subscription
	for _, ch := range c18chans {
		req := presence.Request{Key: key, Channel: ch, Status: true}
		var payload []byte
		if v.Symbolic() {
			c18req = req
		} else {
			payload, _ = json.Marshal(&req)
		}
		resp, ok := svc.presence.OnRequest(conns[w], payload)
		v.Assert(ok, "C18.env.presence-request-accepted")
		r := resp.(*presence.Response)
		want := map[string]string{}
		for x := 0; x < 2; x++ {
			for sub := range held[x] {
				if c18under(ch, sub) {
					want[conns[x].ID()] = names[x]
				}
			}
		}
		v.Assert(len(r.Who) == len(want), "C18.status.exactly-the-receivers")
		for _, info := range r.Who {
			u, ok := want[info.ID]
			v.Assert(ok && u == info.Username, "C18.status.ids-and-usernames")
		}
	}
	v.Observe("notes", uint64(seen))
}

// VerifC18Burst: more subscribe transitions than the notifier's queue holds (100) arrive
// before the notifier gets to run - a burst while it is stalled on a slow watcher. None may
// be dropped: the watcher receives exactly one notification per transition, in order.
func VerifC18Burst(v *verifrt.T) {
	c18chans := c18chans
	_ = c18chans
	ciph := &hcipher{}
	trie := message.NewTrie()
	lic := &license.V1{User: 7, Sign: 9}
	contracts := contract.NewSingleContractProvider(lic, usage.NewNoop())
	svc := &Service{contracts: contracts, subscriptions: trie, License: lic, Config: &config.Config{}, measurer: stats.NewNoop()}
	svc.keygen = keygen.New(ciph, contracts, svc)
	ps := pubsub.New(svc, storage.NewNoop(), svc, trie)
	svc.pubsub = ps
	svc.presence = presence.New(svc, ps, c18survey{}, trie)
	k := security.Key(make([]byte, 24))
	k.SetMaster(1)
	k.SetContract(7)
	k.SetSignature(9)
	k.SetPermissions(security.AllowReadWrite | security.AllowPresence)
	k.SetTarget("#/")
	key := ciph.add(k)

	names := []string{"alice", "bob", "watcher"}
	conns := make([]*Conn, 3)
	socks := make([]*hsock, 3)
	alive := []bool{true, true, true}
	for i := range conns {
		conns[i], socks[i] = hconn(svc, i)
		conns[i].username = names[i]
		conns[i].guid = conns[i].luid.Unique(svc.ID(), "emitter")
	}
	_ = alive
	w := 2
	t := true
	req := presence.Request{Key: key, Channel: "a/", Status: false, Changes: &t}
	var payload []byte
	if v.Symbolic() {
		c18req = req
	} else {
		payload, _ = json.Marshal(&req)
	}
	_, ok := svc.presence.OnRequest(conns[w], payload)
	v.Assert(ok, "C18.env.presence-request-accepted")
	verifrt.RunGoroutines()
	n := v.Bound("burst")
	ssid := message.Ssid{7, hash.OfString("a")}
	burst := func() {
		for i := 0; i < n; i++ {
			who := i % 2
			svc.NotifySubscribe(conns[who], &event.Subscription{Conn: conns[who].luid, User: nocopy.String(names[who]), Ssid: ssid, Channel: []byte("a/")})
		}
	}
	if v.Symbolic() {
		burst() // the notifier runs only when the sender would block, and at the end
		verifrt.RunGoroutines()
	} else {
		// natively the notifier is a real goroutine: it is stalled on the watcher's socket while
		// the burst arrives (from another goroutine, which blocks once the queue is full)
		gate, done := make(chan struct{}), make(chan struct{})
		socks[w].gate = gate
		go func() { burst(); close(done) }()
		time.Sleep(150 * time.Millisecond)
		close(gate)
		<-done
		time.Sleep(200 * time.Millisecond)
	}
	v.Reach("burst-delivered")
	var got []c18note
	for _, raw := range socks[w].writes {
		got = append(got, c18decode(v, raw)...)
	}
	v.Assert(len(got) == n, "C18.changes.none-dropped-in-a-burst")
	for j := 0; j < len(got) && j < n; j++ {
		v.Assert(got[j].event == "subscribe" && got[j].user == names[j%2], "C18.changes.burst-order")
	}
}
