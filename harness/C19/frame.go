package message

import (
	"github.com/emitter-io/emitter/internal/verifrt"
)

// VerifC19Frame: a frame of messages through the real Frame.Encode and DecodeFrame (what a
// peer unicast and a survey answer carry): every message comes back with identical id,
// channel, payload and ttl, in the same order; the pooled encoder is reused by a second frame
// and by a single message in between. snappy (assembly) is a tagged copy and its inverse,
// kelindar/binary's reflection dispatch is the direct calls it ends in (slice: count + every
// element through messageCodec) - see C15/C09; messageCodec, Encoder and Decoder run from
// source.
func VerifC19Frame(v *verifrt.T) {
	n := 1 + v.Choice(v.Bound("fmsgs"), "n")
	mk := func(tag string, i int) Message {
		return Message{
			ID:      ID(v.Bytes(v.Choice(v.Bound("ffield")+1, tag+"il", i), tag+"id", i)),
			Channel: v.Bytes(v.Choice(v.Bound("ffield")+1, tag+"cl", i), tag+"ch", i),
			Payload: v.Bytes(v.Choice(v.Bound("ffield")+1, tag+"pl", i), tag+"pay", i),
			TTL:     v.U32(tag+"ttl", i),
		}
	}
	f := make(Frame, n)
	for i := range f {
		f[i] = mk("a", i)
	}
	g := Frame{Message{ID: ID{1, 2}, Channel: []byte("c"), Payload: []byte("p"), TTL: 7}}
	eg := g.Encode() // leaves its bytes in the pooled buffer
	ef := f.Encode()
	v.Reach("frames-encoded")
	df, err := DecodeFrame(ef)
	v.Assert(err == nil, "C19.frame.decodes")
	v.Assert(len(df) == n, "C19.frame.same-number-of-messages")
	for i := 0; i < n && i < len(df); i++ {
		v.Assert(c15same(df[i].ID, f[i].ID) && c15same(df[i].Channel, f[i].Channel) && c15same(df[i].Payload, f[i].Payload) && df[i].TTL == f[i].TTL, "C19.frame.messages-unchanged-in-order")
	}
	dg, err := DecodeFrame(eg)
	v.Assert(err == nil && len(dg) == 1 && c15same(dg[0].Payload, []byte("p")) && dg[0].TTL == 7, "C19.frame.earlier-frame-unaffected")
	// a decoded frame is kept by its user (history, surveys) while further frames are decoded
	for i := 0; i < n && i < len(df); i++ {
		v.Assert(c15same(df[i].ID, f[i].ID) && c15same(df[i].Channel, f[i].Channel) && c15same(df[i].Payload, f[i].Payload) && df[i].TTL == f[i].TTL, "C19.frame.decoded-frame-stays-intact")
	}
	v.Observe("n", uint64(len(df)))
}

// VerifC19EncodeThreads: frames for different peers are encoded at the same time (every peer
// has its own send-queue goroutine; survey answers are encoded on the mesh goroutine) and
// share the encoder pool. Two threads each encode their own frame through the real
// Frame.Encode, under every schedule within the preemption bound: each result decodes to the
// thread's own messages, and no access to the pooled buffer races with the other thread's.
func VerifC19EncodeThreads(v *verifrt.T) {
	mk := func(tag string) Frame {
		return Frame{Message{ID: ID(v.Bytes(2, tag+"id")), Channel: v.Bytes(1, tag+"ch"), Payload: v.Bytes(2, tag+"pay"), TTL: uint32(v.U8(tag + "ttl"))}}
	}
	fa, fb := mk("a"), mk("b")
	var ea, eb []byte
	v.Threads(v.Bound("preemptions"),
		func() { ea = fa.Encode() },
		func() { eb = fb.Encode() },
	)
	v.Reach("encoded-concurrently")
	for _, x := range []struct {
		enc []byte
		f   Frame
	}{{ea, fa}, {eb, fb}} {
		d, err := DecodeFrame(x.enc)
		v.Assert(err == nil && len(d) == 1, "C19.frame.concurrent-encode-decodes")
		if err == nil && len(d) == 1 {
			v.Assert(c15same(d[0].ID, x.f[0].ID) && c15same(d[0].Channel, x.f[0].Channel) && c15same(d[0].Payload, x.f[0].Payload) && d[0].TTL == x.f[0].TTL, "C19.frame.concurrent-encode-own-messages")
		}
	}
}
