package message

import (
	"github.com/emitter-io/emitter/internal/verifrt"
)

// VerifC19IDThreads: ids created concurrently for one channel are pairwise different.
func VerifC19IDThreads(v *verifrt.T) {
	ssid := Ssid{v.U32("contract"), v.U32("w", 0), v.U32("w", 1)}
	const nthreads = 3
	n := v.Bound("tids")
	var ids [nthreads][4]ID
	mk := func(t int) func() {
		return func() {
			for k := 0; k < n; k++ {
				ids[t][k] = NewID(ssid)
			}
		}
	}
	v.Threads(v.Bound("preemptions"), mk(0), mk(1), mk(2))
	v.Reach("ids-made-concurrently")
	for a := 0; a < nthreads*n; a++ {
		for b := a + 1; b < nthreads*n; b++ {
			v.Assert(!c19tSame(ids[a/n][a%n], ids[b/n][b%n]), "C19.id.unique")
		}
	}
}

func c19tSame(x, y ID) bool {
	if len(x) != len(y) {
		return false
	}
	eq := true
	for i := range x {
		eq = verifrt.And(eq, x[i] == y[i])
	}
	return eq
}
