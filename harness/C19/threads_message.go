package message

import (
	"bytes"
	"reflect"

	"github.com/kelindar/binary"

	"github.com/emitter-io/emitter/internal/verifrt"
)

// VerifC19IDThreads: ids created concurrently for one channel are pairwise different.
func VerifC19IDThreads(v *verifrt.T) {
	ssid := Ssid{v.U32("contract"), v.U32("w", 0), v.U32("w", 1)}
	const nthreads = 3
	n := v.Bound("tids")
	var ids [nthreads][4]ID
	mk := func(t int) func() {
		return func() {
			for k := 0; k < n; k++ {
				ids[t][k] = NewID(ssid)
			}
		}
	}
	v.Threads(v.Bound("preemptions"), mk(0), mk(1), mk(2))
	v.Reach("ids-made-concurrently")
	for a := 0; a < nthreads*n; a++ {
		for b := a + 1; b < nthreads*n; b++ {
			v.Assert(!c19tSame(ids[a/n][a%n], ids[b/n][b%n]), "C19.id.unique")
		}
	}
}

func c19tSame(x, y ID) bool {
	if len(x) != len(y) {
		return false
	}
	eq := true
	for i := range x {
		eq = verifrt.And(eq, x[i] == y[i])
	}
	return eq
}

// VerifC19Codec: a message through the real messageCodec (EncodeTo with the reflect
// accessors, DecodeTo with readBytes) comes back with identical id, channel, payload and
// ttl (an empty field comes back empty).
func VerifC19Codec(v *verifrt.T) {
	m := Message{
		ID:      ID(v.Bytes(v.Choice(v.Bound("field")+1, "il"), "id")),
		Channel: v.Bytes(v.Choice(v.Bound("field")+1, "cl"), "ch"),
		Payload: v.Bytes(v.Choice(v.Bound("field")+1, "pl"), "pay"),
		TTL:     v.U32("ttl"),
	}
	var buf bytes.Buffer
	e := binary.NewEncoder(&buf)
	c := new(messageCodec)
	v.Assert(c.EncodeTo(e, reflect.ValueOf(m)) == nil, "C19.codec.encodes")
	var out Message
	d := binary.NewDecoder(bytes.NewBuffer(buf.Bytes()))
	v.Assert(c.DecodeTo(d, reflect.ValueOf(&out).Elem()) == nil, "C19.codec.decodes")
	v.Reach("message-codec-roundtrip")
	v.Assert(bytes.Equal(out.ID, m.ID) && bytes.Equal(out.Channel, m.Channel) && bytes.Equal(out.Payload, m.Payload) && out.TTL == m.TTL, "C19.codec.message-unchanged")
	v.Observe("len", uint64(buf.Len()))
}
