package message

import (
	"bytes"
	"time"

	"github.com/kelindar/binary"

	"github.com/emitter-io/emitter/internal/security"
	"github.com/emitter-io/emitter/internal/verifrt"
)

func c19ssid(v *verifrt.T, name string) Ssid {
	n := 2 + v.Choice(v.Bound("ssid")-1, name+"n")
	s := make(Ssid, n)
	for i := range s {
		s[i] = v.U32(name, i)
	}
	return s
}

// VerifC19ID: an id gives back the ssid, contract and second-resolution time it was
// created with; ids created later for a channel sort before earlier ones and differ.
func VerifC19ID(v *verifrt.T) {
	s := c19ssid(v, "s")
	t0 := time.Now().Unix()
	id1 := NewID(s)
	id2 := NewID(s)
	t1 := time.Now().Unix()
	v.Reach("ids-made")
	got := id1.Ssid()
	v.Assert(len(got) == len(s), "C19.id.ssid-length")
	for i := range s {
		v.Assert(got[i] == s[i], "C19.id.ssid-words")
	}
	v.Assert(id1.Contract() == s[0], "C19.id.contract")
	v.Assert(id1.Time() >= t0 && id1.Time() <= t1 && id2.Time() >= id1.Time(), "C19.id.creation-time")
	v.Assert(bytes.Compare(id2, id1) < 0, "C19.id.later-sorts-first")
	v.Assert(id1.HasPrefix(s, 0) && id1.Match(s, t0, t1), "C19.id.matches-own-channel")
	// any time in the supported range survives SetTime / Time, and ordering follows time
	ta, tb := v.I64("ta"), v.I64("tb")
	v.Assume(ta >= security.MinTime && ta < security.MaxTime && tb >= ta && tb < security.MaxTime)
	id1.SetTime(ta)
	id2.SetTime(tb)
	v.Assert(id1.Time() == ta && id2.Time() == tb, "C19.id.time-roundtrip")
	v.Assert(bytes.Compare(id2, id1) < 0, "C19.id.later-time-sorts-first")
	p := NewPrefix(s, tb)
	v.Assert(bytes.Compare(p, id2[:8]) == 0, "C19.id.prefix-is-id-head")
	v.Observe("len", uint64(len(id1)))
}

// VerifC19Split: splitting a frame never drops, duplicates or reorders messages, and
// the head respects the byte bound.
func VerifC19Split(v *verifrt.T) {
	n := v.Choice(v.Bound("msgs")+1, "n")
	f := make(Frame, n)
	for i := range f {
		f[i] = Message{ID: make(ID, 16+8), Channel: make([]byte, v.Choice(3, "cl", i)), Payload: make([]byte, v.Choice(4, "pl", i))}
		f[i].ID[0] = byte(i)
	}
	max := v.Int("max")
	head, tail := f.Split(max)
	v.Reach("split")
	v.Assert(len(head)+len(tail) == n, "C19.split.nothing-dropped-or-duplicated")
	for i := range head {
		v.Assert(head[i].ID[0] == byte(i), "C19.split.head-order")
	}
	for i := range tail {
		v.Assert(tail[i].ID[0] == byte(len(head)+i), "C19.split.tail-order")
	}
	size := 0
	for _, m := range head {
		size += len(m.Payload) + len(m.ID) + len(m.Channel) + 20
	}
	v.Assert(len(head) == 0 || size < max, "C19.split.head-within-bound")
	// maximal: the next message would not have fitted
	if len(tail) > 0 {
		next := len(tail[0].Payload) + len(tail[0].ID) + len(tail[0].Channel) + 20
		v.Assert(size+next >= max, "C19.split.head-is-maximal")
	}
	v.Observe("head", uint64(len(head)))
}

// VerifC19Bytes: the length-prefixed byte fields of the message codec survive a
// write / readBytes round trip (the reflection-driven EncodeTo/DecodeTo wrappers and
// snappy are outside).
func VerifC19Bytes(v *verifrt.T) {
	var buf bytes.Buffer
	e := binary.NewEncoder(&buf)
	fields := make([][]byte, 3)
	for i := range fields {
		fields[i] = v.Bytes(v.Choice(v.Bound("field")+1, "fl", i), "f"+string(rune('0'+i)))
		e.WriteUvarint(uint64(len(fields[i])))
		e.Write(fields[i])
	}
	ttl := v.U32("ttl")
	e.WriteUvarint(uint64(ttl))
	d := binary.NewDecoder(bytes.NewBuffer(buf.Bytes()))
	for i := range fields {
		got, err := readBytes(d)
		v.Assert(err == nil && bytes.Equal(got, fields[i]), "C19.bytes.field-roundtrip")
	}
	t, err := d.ReadUvarint()
	v.Reach("decoded")
	v.Assert(err == nil && uint32(t) == ttl, "C19.bytes.ttl-roundtrip")
}
