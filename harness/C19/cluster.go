package cluster

import (
	"errors"
	"time"

	"github.com/weaveworks/mesh"

	"github.com/emitter-io/emitter/internal/message"
	"github.com/emitter-io/emitter/internal/verifrt"
)

type c19gossip struct {
	sent   [][]byte
	failAt int // the unicast with this index (1-based) reports a transport error; 0 = none
}

func (g *c19gossip) GossipUnicast(dst mesh.PeerName, msg []byte) error {
	g.sent = append(g.sent, msg)
	if g.failAt == len(g.sent) {
		return errors.New("transport: link busy")
	}
	return nil
}
func (g *c19gossip) GossipBroadcast(update mesh.GossipData)       {}
func (g *c19gossip) GossipNeighbourSubset(update mesh.GossipData) {}

// c19Encode stands in for Frame.Encode (binary reflection + snappy): one byte per message.
func c19Encode(f *message.Frame) []byte {
	var out []byte
	for _, m := range *f {
		out = append(out, m.Payload[0])
	}
	return out
}

// VerifC19Peer: every message handed to an active peer reaches the transport exactly
// once and in order, whatever the interleaving of sends with the periodic queue flush.
func VerifC19Peer(v *verifrt.T) {
	g := &c19gossip{}
	p := &Peer{sender: g, name: 7, frame: message.NewFrame(defaultFrameSize), subs: message.NewCounters(), activity: time.Now().Unix()}
	n := v.Bound("sends")
	sent := 0
	for i := 0; i < n; i++ {
		if v.Bool("flush", i) {
			p.processSendQueue()
		}
		m := &message.Message{ID: make(message.ID, 24), Channel: []byte("c/"), Payload: []byte{byte(i)}}
		v.Assert(p.Send(m) == nil, "C19.peer.send-ok")
		sent++
	}
	p.processSendQueue()
	p.processSendQueue()
	// the property speaks of an active peer: the (monotone, symbolic) clock stays inside the activity window
	v.Assume(time.Now().Unix() < p.activity+30)
	v.Reach("flushed")
	var got []byte
	for _, b := range g.sent {
		if v.Symbolic() {
			got = append(got, b...)
		} else {
			f, err := message.DecodeFrame(b)
			v.Assert(err == nil, "C19.peer.frame-decodes")
			for _, m := range f {
				got = append(got, m.Payload[0])
			}
		}
	}
	v.Assert(len(got) == sent, "C19.peer.exactly-once")
	for i := range got {
		v.Assert(got[i] == byte(i), "C19.peer.in-order")
	}
	v.Assert(len(p.frame) == 0, "C19.peer.queue-empty-after-flush")
	v.Observe("frames", uint64(len(g.sent)))
}

// VerifC19PeerChunks: a queued frame larger than the gossip limit (10 MB) leaves in several
// chunks; one of the unicasts may report a transport error. Every message is still handed
// to the transport exactly once and in order (the error concerns that chunk's delivery, not
// the chunks behind it), and the queue is empty afterwards.
func VerifC19PeerChunks(v *verifrt.T) {
	g := &c19gossip{failAt: v.Choice(4, "fail-at")}
	p := &Peer{sender: g, name: 7, frame: message.NewFrame(defaultFrameSize), subs: message.NewCounters(), activity: time.Now().Unix()}
	const n = 3
	for i := 0; i < n; i++ {
		pay := make([]byte, 4<<20) // three of them exceed the limit: at least two chunks
		pay[0] = byte(i)
		v.Assert(p.Send(&message.Message{ID: make(message.ID, 24), Channel: []byte("c/"), Payload: pay}) == nil, "C19.peer.send-ok")
	}
	p.processSendQueue()
	p.processSendQueue()
	v.Assume(time.Now().Unix() < p.activity+30)
	v.Reach("chunks-flushed")
	var got []byte
	for _, b := range g.sent {
		if v.Symbolic() {
			got = append(got, b...)
		} else {
			f, err := message.DecodeFrame(b)
			v.Assert(err == nil, "C19.peer.frame-decodes")
			for _, m := range f {
				got = append(got, m.Payload[0])
			}
		}
	}
	v.Assert(len(g.sent) >= 2, "C19.peer.large-frame-leaves-in-chunks")
	v.Assert(len(got) == n, "C19.peer.chunks.exactly-once")
	for i := range got {
		v.Assert(got[i] == byte(i), "C19.peer.chunks.in-order")
	}
	v.Assert(len(p.frame) == 0, "C19.peer.queue-empty-after-flush")
	v.Observe("frames", uint64(len(g.sent)))
}
