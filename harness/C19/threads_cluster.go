package cluster

import (
	"time"

	"github.com/emitter-io/emitter/internal/message"
	"github.com/emitter-io/emitter/internal/verifrt"
)

// VerifC19PeerThreads: sender threads hand messages to one peer while another thread
// plays the 5 ms queue processor; under every schedule (within the preemption bound)
// each message reaches the transport exactly once and each sender's messages stay in
// the order they were handed over. (Schedules are forks of the symbolic run; see
// DESIGN.md section 2.9.)
func VerifC19PeerThreads(v *verifrt.T) {
	g := &c19gossip{}
	p := &Peer{sender: g, name: 7, frame: message.NewFrame(defaultFrameSize), subs: message.NewCounters(), activity: time.Now().Unix()}
	nmsg := v.Bound("tsends")
	const nsenders = 2
	sender := func(id int) func() {
		return func() {
			for k := 0; k < nmsg; k++ {
				m := &message.Message{ID: make(message.ID, 24), Channel: []byte("c/"), Payload: []byte{byte(id<<4 | k)}}
				v.Assert(p.Send(m) == nil, "C19.peer.send-ok")
			}
		}
	}
	flusher := func() {
		for k := 0; k < v.Bound("tflushes"); k++ {
			p.processSendQueue()
		}
	}
	v.Threads(v.Bound("preemptions"), sender(0), sender(1), flusher)
	p.processSendQueue()
	v.Assume(time.Now().Unix() < p.activity+30)
	v.Reach("threads-flushed")
	var got []byte
	for _, b := range g.sent {
		if v.Symbolic() {
			got = append(got, b...)
		} else {
			f, err := message.DecodeFrame(b)
			v.Assert(err == nil, "C19.peer.frame-decodes")
			for _, m := range f {
				got = append(got, m.Payload[0])
			}
		}
	}
	v.Assert(len(got) == nsenders*nmsg, "C19.peer.exactly-once")
	var next [nsenders]int
	for _, b := range got {
		id := int(b >> 4)
		v.Assert(id < nsenders && int(b&15) == next[id], "C19.peer.in-order")
		next[id]++
	}
	v.Assert(len(p.frame) == 0, "C19.peer.queue-empty-after-flush")
	v.Observe("frames", uint64(len(g.sent)))
}
