package storage

import (
	"os"
	"time"

	"github.com/dgraph-io/badger/v3"

	"github.com/emitter-io/emitter/internal/message"
	"github.com/emitter-io/emitter/internal/verifrt"
)

// VerifC07StoreTTL: "stored with the requested ttl (retain meaning the configured retention
// period)". The real SSD.Store on a message with an arbitrary ttl - small, larger than the
// retention period, the value the publish handler clamps oversized options to, the retain
// marker: what is committed carries exactly the requested ttl, the retention period only for
// the marker, and expires at creation time + that ttl.
func VerifC07StoreTTL(v *verifrt.T) {
	dir := "/data/c07"
	if v.Symbolic() {
		c15reset()
	} else {
		d, err := os.MkdirTemp("", "c07")
		if err != nil {
			panic(err)
		}
		defer os.RemoveAll(d)
		dir = d
	}
	retain := uint32(86400)
	s := NewSSD(nil)
	v.Assert(s.Configure(map[string]interface{}{"dir": dir, "retain": float64(retain)}) == nil, "C07.store.opens")
	ssid := message.Ssid{7, 11}
	id := message.NewID(ssid)
	t := time.Now().Unix()
	if v.Symbolic() {
		t = 1790000000
	}
	id.SetTime(t)
	ttl := v.U32("ttl")
	v.Assume(ttl > 0)
	m := message.Message{ID: id, Channel: []byte("a/"), Payload: []byte("p"), TTL: ttl}
	v.Assert(s.Store(&m) == nil, "C07.store.stored")
	v.Reach("stored-with-ttl")
	want := int64(ttl)
	if ttl == message.RetainedTTL {
		want = int64(retain)
	}
	// what was committed
	var gotTTL, gotExp int64 = -1, -1
	if v.Symbolic() {
		kvs := c15disk[dir]
		v.Assert(len(kvs) == 1, "C07.store.stored-once")
		if len(kvs) == 1 {
			gotExp = int64(kvs[0].exp)
			if msg, err := c15DecodeMessage(kvs[0].val); err == nil {
				gotTTL = int64(msg.TTL)
			}
		}
	} else {
		s.db.View(func(tx *badger.Txn) error {
			it := tx.NewIterator(badger.IteratorOptions{AllVersions: true})
			defer it.Close()
			for it.Rewind(); it.Valid(); it.Next() {
				item := it.Item()
				gotExp = int64(item.ExpiresAt())
				if val, err := item.ValueCopy(nil); err == nil {
					if msg, err := message.DecodeMessage(val); err == nil {
						gotTTL = int64(msg.TTL)
					}
				}
			}
			return nil
		})
		s.Close()
	}
	v.Assert(gotTTL == want, "C07.store.requested-ttl-kept-retain-mapped")
	v.Assert(gotExp == t+want, "C07.store.expires-at-creation-plus-ttl")
}
