package broker

import (
	"time"

	"github.com/emitter-io/emitter/internal/event"
	"github.com/emitter-io/emitter/internal/message"
	"github.com/emitter-io/emitter/internal/network/mqtt"
	"github.com/emitter-io/emitter/internal/provider/contract"
	"github.com/emitter-io/emitter/internal/provider/storage"
	"github.com/emitter-io/emitter/internal/provider/usage"
	"github.com/emitter-io/emitter/internal/security"
	"github.com/emitter-io/emitter/internal/security/license"
	"github.com/emitter-io/emitter/internal/service/keygen"
	"github.com/emitter-io/emitter/internal/service/pubsub"
	"github.com/emitter-io/emitter/internal/verifrt"
)

type c07query struct {
	ssid        message.Ssid
	from, until time.Time
	limit       int
	writesBefore int
}

type c07store struct {
	storage.Noop
	stored  []message.Message
	queries []c07query
	sock    *hsock
	avail   int // how many messages the history holds for any query
}

func (s *c07store) Store(m *message.Message) error {
	s.stored = append(s.stored, *m)
	return nil
}

func (s *c07store) Query(ssid message.Ssid, from, until time.Time, startFromID message.ID, limit int) (message.Frame, error) {
	q := c07query{ssid: ssid, from: from, until: until, limit: limit}
	if s.sock != nil {
		q.writesBefore = len(s.sock.writes)
	}
	s.queries = append(s.queries, q)
	n := s.avail
	if limit < n {
		n = limit
	}
	var f message.Frame
	for i := 0; i < n; i++ {
		f = append(f, message.Message{ID: message.NewID(ssid), Channel: []byte("a/"), Payload: []byte{byte('0' + i)}})
	}
	return f, nil
}

type c07env struct {
	svc   *Service
	ciph  *hcipher
	store *c07store
	ps    *pubsub.Service
	trie  *message.Trie
	key   security.Key
	name  string
}

func c07new(v *verifrt.T) *c07env {
	e := &c07env{ciph: &hcipher{}, store: &c07store{}, trie: message.NewTrie()}
	lic := &license.V1{User: 7, Sign: 9}
	contracts := contract.NewSingleContractProvider(lic, usage.NewNoop())
	e.svc = &Service{contracts: contracts, subscriptions: e.trie, License: lic}
	e.svc.keygen = keygen.New(e.ciph, contracts, e.svc)
	e.ps = pubsub.New(e.svc, e.store, &hnotifier{}, e.trie)
	e.svc.pubsub = e.ps
	k := security.Key(make([]byte, 24))
	k.SetMaster(1)
	k.SetContract(7)
	k.SetSignature(9)
	k.SetPermissions(v.U8("perm"))
	k.SetTarget("a/")
	e.key = k
	e.name = e.ciph.add(k)
	return e
}

var c07boundary = []uint64{0, 1, 59, 2147483647, 2147483648, 4294967294, 4294967295, 4294967296, 4294967297, 8589934592, 99999999999}

// c07digits draws a decimal option value: either 1..digits symbolic decimal digits, or
// one of the values at the 2^31 / 2^32 boundaries (decimal parsing of ten or more
// symbolic digits is a multiplier chain the bit-blasting solvers do not get through).
func c07digits(v *verifrt.T, name string) ([]byte, uint64) {
	if v.Bool(name + "boundary") {
		val := c07boundary[v.Choice(len(c07boundary), name+"idx")]
		var b []byte
		for x := val; ; x /= 10 {
			b = append([]byte{byte('0' + x%10)}, b...)
			if x < 10 {
				break
			}
		}
		return b, val
	}
	n := 1 + v.Choice(v.Bound("digits"), name+"len")
	var b []byte
	var val uint64
	for i := 0; i < n; i++ {
		d := v.U8(name, i)
		v.Assume(d <= 9)
		b = append(b, '0'+d)
		val = val*10 + uint64(d)
	}
	return b, val
}

// VerifC07Publish: a publish (or last will) is stored iff it has a positive ttl or the
// retain flag and its key has the store permission; once; under the publisher's
// contract and channel; with the requested ttl.
func VerifC07Publish(v *verifrt.T) {
	e := c07new(v)
	conn, _ := hconn(e.svc, 0)
	retain := v.Bool("retain")
	will := v.Bool("will")
	topic := []byte(e.name + "/a/")
	hasTTL := false
	var ttl uint64
	if !will && v.Bool("withttl") {
		hasTTL = true
		txt, val := c07digits(v, "ttl")
		ttl = val
		topic = append(append(topic, "?ttl="...), txt...)
	}
	perm := e.key.Permissions()
	if will {
		conn.connect = &event.Connection{WillFlag: true, WillRetain: retain, WillTopic: topic, WillMessage: []byte("bye")}
		e.ps.OnLastWill(conn, conn.connect)
	} else {
		e.ps.OnPublish(conn, &mqtt.Publish{Header: mqtt.Header{Retain: retain}, Topic: topic, Payload: []byte("hi")})
	}
	v.Reach("published")
	canWrite := verifrt.And(perm&security.AllowWrite != 0, perm&security.AllowExtend == 0)
	wantStore := verifrt.And(canWrite, verifrt.And(perm&security.AllowStore != 0, verifrt.Or(retain, verifrt.And(hasTTL, ttl > 0))))
	if len(e.store.stored) == 0 {
		v.Assert(verifrt.Not(wantStore), "C07.publish.stored-when-ttl-or-retain-and-store-permission")
		return
	}
	v.Assert(wantStore, "C07.publish.not-stored-otherwise")
	v.Assert(len(e.store.stored) == 1, "C07.publish.stored-once")
	m := e.store.stored[0]
	v.Assert(m.Contract() == 7 && string(m.Channel) == "a/", "C07.publish.stored-under-publishers-contract-and-channel")
	if hasTTL && ttl > 0 && ttl < 4294967295 {
		v.Assert(uint64(m.TTL) == ttl, "C07.publish.requested-ttl")
	} else if !hasTTL || ttl == 0 {
		v.Assert(m.TTL == message.RetainedTTL, "C07.publish.retain-means-configured-retention")
	}
	v.Observe("ttl", uint64(m.TTL))
}

// VerifC07Subscribe: an accepted subscription with the load permission is sent the
// last N stored messages (N from `last`, 1 by default, 0 for none; from/until narrow the
// window) before OnSubscribe returns (the SUBACK is written by the caller afterwards);
// without the load permission nothing is queried or sent.
func VerifC07Subscribe(v *verifrt.T) {
	e := c07new(v)
	conn, sock := hconn(e.svc, 0)
	e.store.sock = sock
	e.store.avail = v.Bound("avail")
	topic := []byte(e.name + "/a/")
	first := true
	add := func(name string) (bool, uint64) {
		if !v.Bool("with" + name) {
			return false, 0
		}
		txt, val := c07digits(v, name)
		if first {
			topic = append(topic, '?')
			first = false
		} else {
			topic = append(topic, '&')
		}
		topic = append(append(append(topic, name...), '='), txt...)
		return true, val
	}
	hasLast, last := add("last")
	hasFrom, from := add("from")
	hasUntil, until := add("until")
	perm := e.key.Permissions()
	err := e.ps.OnSubscribe(conn, topic)
	v.Reach("subscribed")
	accepted := verifrt.And(perm&security.AllowRead != 0, perm&security.AllowExtend == 0)
	v.Assert((err == nil) == accepted, "C07.subscribe.accepted-iff-read-permission")
	if err != nil {
		v.Assert(len(e.store.queries) == 0 && len(sock.writes) == 0, "C07.subscribe.refused-request-sends-nothing")
		return
	}
	if perm&security.AllowLoad == 0 {
		v.Assert(len(e.store.queries) == 0 && len(sock.writes) == 0, "C07.subscribe.no-load-permission-no-history")
		return
	}
	v.Assert(len(e.store.queries) == 1, "C07.subscribe.history-queried-once")
	q := e.store.queries[0]
	wantLimit := uint64(1)
	if hasLast {
		wantLimit = last
	}
	v.Assert(q.limit >= 0 && uint64(q.limit) == wantLimit, "C07.subscribe.limit-is-last-option")
	inRange := func(t uint64) bool { return verifrt.And(t >= security.MinTime, t <= security.MaxTime) }
	if hasFrom {
		v.Assert(verifrt.Or(verifrt.Not(inRange(from)), uint64(q.from.Unix()) == from), "C07.subscribe.window-from")
	} else {
		v.Assert(q.from.Unix() == 0, "C07.subscribe.window-from-default")
	}
	if hasUntil {
		v.Assert(verifrt.Or(verifrt.Not(inRange(until)), uint64(q.until.Unix()) == until), "C07.subscribe.window-until")
	} else {
		v.Assert(q.until.Unix() == 0, "C07.subscribe.window-until-default")
	}
	v.Assert(len(q.ssid) == 2 && q.ssid[0] == 7, "C07.subscribe.query-under-subscribers-contract")
	want := uint64(e.store.avail)
	if wantLimit < want {
		want = wantLimit
	}
	v.Assert(uint64(len(sock.writes)) == want, "C07.subscribe.every-returned-message-sent-before-ack")
	// a repeated SUBSCRIBE for a channel the connection already holds (e.g. to fetch again with
	// another last=N) is a subscription accepted with load permission like the first one
	before := len(sock.writes)
	err = e.ps.OnSubscribe(conn, append([]byte(nil), topic...))
	v.Assert(err == nil, "C07.resubscribe.accepted")
	v.Assert(len(e.store.queries) == 2, "C07.resubscribe.history-queried-again")
	if len(e.store.queries) == 2 {
		v.Assert(e.store.queries[1].limit == q.limit, "C07.resubscribe.same-limit")
	}
	v.Assert(uint64(len(sock.writes)-before) == want, "C07.resubscribe.messages-sent-again")
	v.Observe("sent", uint64(len(sock.writes)))
}
