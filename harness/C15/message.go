package message

import (
	"bytes"
	"errors"
	"reflect"

	"github.com/kelindar/binary"

	"github.com/emitter-io/emitter/internal/verifrt"
)

// ---- stand-ins (symbolic executor only; natively the real functions run) ----

// c15SnappyEncode / c15SnappyDecode: snappy's block encoder is assembly on amd64. Its
// contract (Decode(Encode(x)) == x, the output does not alias the input) is kept by a
// tagged copy: a one-byte marker followed by the bytes.
// Like the real functions they write into dst when it is long enough and allocate otherwise.
func c15SnappyEncode(dst, src []byte) []byte {
	var out []byte
	if len(dst) >= len(src)+1 {
		out = dst[:len(src)+1]
	} else {
		out = make([]byte, len(src)+1)
	}
	out[0] = 0x5a
	copy(out[1:], src)
	return out
}

func c15SnappyDecode(dst, src []byte) ([]byte, error) {
	if len(src) == 0 || src[0] != 0x5a {
		return nil, errors.New("snappy: corrupt input")
	}
	var out []byte
	if len(src)-1 <= len(dst) {
		out = dst[:len(src)-1]
	} else {
		out = make([]byte, len(src)-1)
	}
	copy(out, src[1:])
	return out, nil
}

// c15EncoderEncode / c15Unmarshal: kelindar/binary finds a type's codec by reflection
// (type scan + method lookup); the dispatch is replaced by the direct call it ends in
// for *Message, the codec itself runs from its source.
func c15EncoderEncode(e *binary.Encoder, val interface{}) error {
	if f, ok := val.(*Frame); ok { // a slice: element count, then every element through its codec
		e.WriteUvarint(uint64(len(*f)))
		for i := range *f {
			if err := (*f)[i].GetBinaryCodec().EncodeTo(e, reflect.ValueOf((*f)[i])); err != nil {
				return err
			}
		}
		return nil
	}
	m := val.(*Message)
	return m.GetBinaryCodec().EncodeTo(e, reflect.ValueOf(*m))
}

func c15Unmarshal(b []byte, val interface{}) error {
	out := val.(*Message)
	d := binary.NewDecoder(bytes.NewBuffer(b))
	return out.GetBinaryCodec().DecodeTo(d, reflect.ValueOf(out).Elem())
}

func c15same(x, y []byte) bool {
	if len(x) != len(y) {
		return false
	}
	eq := true
	for i := range x {
		eq = verifrt.And(eq, x[i] == y[i])
	}
	return eq
}

// VerifC15Value: the value the disk store keeps for a message is Message.Encode(); what a
// history query hands back is DecodeMessage of those bytes. Two messages are encoded one
// after the other (the second one reuses the pooled encoder and its buffer, as every store
// after the first does; optionally a Frame.Encode, which shares the pool, comes between) and both values are decoded afterwards, as a query after a restart
// does: each comes back with identical id, channel, payload and ttl, hence identical expiry.
func VerifC15Value(v *verifrt.T) {
	// the first message has one shape (2-byte fields, arbitrary bytes and ttl); the second
	// one, encoded into the reused buffer, has arbitrary field lengths up to the bound
	m0 := Message{ID: ID(v.Bytes(2, "id", 0)), Channel: v.Bytes(2, "ch", 0), Payload: v.Bytes(2, "pay", 0), TTL: v.U32("ttl", 0)}
	m1 := Message{
		ID:      ID(v.Bytes(v.Choice(v.Bound("field")+1, "il", 1), "id", 1)),
		Channel: v.Bytes(v.Choice(v.Bound("field")+1, "cl", 1), "ch", 1),
		Payload: v.Bytes(v.Choice(v.Bound("field")+1, "pl", 1), "pay", 1),
		TTL:     v.U32("ttl", 1),
	}
	v0 := m0.Encode()
	// the same pool also serves Frame.Encode (survey replies, peer frames)
	if v.Bool("frame-between") {
		fr := Frame{m0}
		_ = fr.Encode()
	}
	v1 := m1.Encode()
	v.Reach("values-encoded")
	o0, err0 := DecodeMessage(v0)
	o1, err1 := DecodeMessage(v1)
	v.Assert(err0 == nil && err1 == nil, "C15.value.decodes")
	v.Assert(c15same(o0.ID, m0.ID) && c15same(o0.Channel, m0.Channel) && c15same(o0.Payload, m0.Payload) && o0.TTL == m0.TTL, "C15.value.first-unchanged")
	v.Assert(c15same(o1.ID, m1.ID) && c15same(o1.Channel, m1.Channel) && c15same(o1.Payload, m1.Payload) && o1.TTL == m1.TTL, "C15.value.second-unchanged")
	v.Observe("ttl0", uint64(o0.TTL))
	v.Observe("paylen1", uint64(len(o1.Payload)))
}
