package storage

import (
	"bytes"
	"context"
	"encoding/binary"
	"errors"
	"fmt"
	"os"
	"os/exec"
	"path/filepath"
	"runtime"
	"strconv"
	"syscall"
	"time"

	"github.com/dgraph-io/badger/v3"

	"github.com/emitter-io/emitter/internal/message"
	"github.com/emitter-io/emitter/internal/security"
	"github.com/emitter-io/emitter/internal/verifrt"
)

// ---- badger's contract as a stand-in (symbolic executor only) -------------------------
//
// What is assumed of badger (and stated in the evidence): DB.Update runs the closure on a
// transaction and, when it returns nil, every entry set on that transaction is on disk
// under the directory the DB was opened on (atomically, in key order); when the closure or
// the commit fails nothing is. A process that dies keeps exactly the committed entries;
// Open on the same directory sees them again (unless the DB was opened InMemory); iterators
// hide entries whose ExpiresAt has passed. The *emitter* side of the property - what is
// handed to badger, when, whether failures are reported, what Configure opens, what a query
// makes of the stored bytes - is what runs from source here.

type c15kv struct {
	key     []byte
	val     []byte
	exp     uint64
	flushed bool // written to a table file by a clean Close (until then it lives in the memtable's log file)
}

type c15store struct {
	dir      string
	inMemory bool
	kvs      []c15kv
	closed   bool
}

type c15txn struct {
	db      *badger.DB
	pending []*badger.Entry
}

var (
	c15disk    map[string][]c15kv // directory -> what is on disk
	c15dbs     map[*badger.DB]*c15store
	c15txns    map[*badger.Txn]*c15txn
	c15iters   map[*badger.Iterator]*c15iter
	c15items   map[*badger.Item]c15kv
	c15now     uint64 // the clock badger's expiry check sees
	c15failing bool   // the next commit fails (disk full, ...)
	c15opened  []badger.Options
	c15updates int
	c15writer  []func() // commits handed to badger's writer that have not reached the disk yet
	c15batches map[*badger.WriteBatch]*c15txn
)

type c15iter struct {
	st  *c15store
	pos int
}

func c15reset() {
	c15disk = map[string][]c15kv{}
	c15dbs = map[*badger.DB]*c15store{}
	c15txns = map[*badger.Txn]*c15txn{}
	c15iters = map[*badger.Iterator]*c15iter{}
	c15items = map[*badger.Item]c15kv{}
	c15failing = false
	c15opened = nil
	c15updates = 0
	c15values = nil
	c15writer = nil
	c15batches = map[*badger.WriteBatch]*c15txn{}
	c15tampered = nil
	// badger's package initialiser is not run under the executor: its error values are nil there
	if badger.ErrDBClosed == nil {
		badger.ErrDBClosed = errors.New("DB Closed")
	}
	if badger.ErrBlockedWrites == nil {
		badger.ErrBlockedWrites = errors.New("Writes are blocked, possibly due to DropAll or Close")
	}
}

func c15Open(opts badger.Options) (*badger.DB, error) {
	c15opened = append(c15opened, opts)
	if opts.InMemory && (opts.Dir != "" || opts.ValueDir != "") {
		return nil, errors.New("Cannot use badger in Disk-less mode with Dir or ValueDir set")
	}
	if opts.ReadOnly && len(c15disk[opts.Dir]) == 0 {
		return nil, errors.New("Cannot find directory for read-only open")
	}
	db := new(badger.DB)
	st := &c15store{dir: opts.Dir, inMemory: opts.InMemory}
	if !opts.InMemory {
		if len(c15tampered) > 0 {
			// files of the directory were removed / renamed before the open: what only lived in
			// the memtable's log files (everything since the last clean Close) cannot be replayed
			var kept []c15kv
			for _, kv := range c15disk[opts.Dir] {
				if kv.flushed {
					kept = append(kept, kv)
				}
			}
			c15disk[opts.Dir] = kept
			c15tampered = nil
		}
		st.kvs = append(st.kvs, c15disk[opts.Dir]...)
	}
	c15dbs[db] = st
	return db, nil
}

func c15insert(kvs []c15kv, e c15kv) []c15kv {
	pos := 0
	for pos < len(kvs) && bytes.Compare(kvs[pos].key, e.key) < 0 {
		pos++
	}
	if pos < len(kvs) && bytes.Equal(kvs[pos].key, e.key) {
		kvs[pos] = e
		return kvs
	}
	out := make([]c15kv, 0, len(kvs)+1)
	out = append(out, kvs[:pos]...)
	out = append(out, e)
	return append(out, kvs[pos:]...)
}

func c15Update(db *badger.DB, fn func(tx *badger.Txn) error) error {
	st := c15dbs[db]
	if st.closed {
		return badger.ErrDBClosed
	}
	tx := new(badger.Txn)
	t := &c15txn{db: db}
	c15txns[tx] = t
	c15updates++
	if err := fn(tx); err != nil {
		return err
	}
	return c15commit(t, true)
}

// commit applies a transaction's entries: always to what the open DB sees, and to the disk
// image either now (synchronous commit) or when the writer gets to it (CommitWith).
func c15commit(t *c15txn, sync bool) error {
	st := c15dbs[t.db]
	if st.closed {
		return badger.ErrDBClosed
	}
	if c15failing {
		c15failing = false
		return errors.New("commit failed")
	}
	var kvs []c15kv
	for _, e := range t.pending {
		kv := c15kv{key: append([]byte(nil), e.Key...), val: append([]byte(nil), e.Value...), exp: e.ExpiresAt}
		kvs = append(kvs, kv)
		st.kvs = c15insert(st.kvs, kv)
	}
	t.pending = nil
	toDisk := func() {
		if !st.inMemory {
			for _, kv := range kvs {
				c15disk[st.dir] = c15insert(c15disk[st.dir], kv)
			}
		}
	}
	if sync {
		toDisk()
	} else {
		c15writer = append(c15writer, toDisk)
	}
	return nil
}

// c15drain: badger's writer goroutine catches up (Close and Sync wait for it; a kill does not)
func c15drain() {
	for _, f := range c15writer {
		f()
	}
	c15writer = nil
}

func c15NewTransaction(db *badger.DB, update bool) *badger.Txn {
	tx := new(badger.Txn)
	c15txns[tx] = &c15txn{db: db}
	return tx
}

func c15Commit(tx *badger.Txn) error { c15updates++; return c15commit(c15txns[tx], true) }

func c15CommitWith(tx *badger.Txn, cb func(error)) {
	c15updates++
	err := c15commit(c15txns[tx], false)
	c15writer = append(c15writer, func() { cb(err) })
}

func c15Discard(tx *badger.Txn) { c15txns[tx].pending = nil }

func c15Set(tx *badger.Txn, key, val []byte) error {
	return c15SetEntry(tx, &badger.Entry{Key: key, Value: val})
}

func c15Sync(db *badger.DB) error { c15drain(); return nil }

// write batches: entries are committed by Flush (synchronously), dropped by Cancel
func c15NewWriteBatch(db *badger.DB) *badger.WriteBatch {
	wb := new(badger.WriteBatch)
	c15batches[wb] = &c15txn{db: db}
	return wb
}
func c15BatchSetEntry(wb *badger.WriteBatch, e *badger.Entry) error {
	t := c15batches[wb]
	t.pending = append(t.pending, e)
	return nil
}
func c15BatchSet(wb *badger.WriteBatch, k, val []byte) error {
	return c15BatchSetEntry(wb, &badger.Entry{Key: k, Value: val})
}
func c15BatchFlush(wb *badger.WriteBatch) error { c15updates++; return c15commit(c15batches[wb], true) }
func c15BatchCancel(wb *badger.WriteBatch)      { c15batches[wb].pending = nil }

func c15SetEntry(tx *badger.Txn, e *badger.Entry) error {
	t := c15txns[tx]
	t.pending = append(t.pending, e)
	return nil
}

func c15CloseDB(db *badger.DB) error {
	c15drain()
	if st := c15dbs[db]; !st.inMemory {
		img := c15disk[st.dir]
		for i := range img {
			img[i].flushed = true
		}
	}
	c15dbs[db].closed = true
	return nil
}

func c15View(db *badger.DB, fn func(tx *badger.Txn) error) error {
	tx := new(badger.Txn)
	c15txns[tx] = &c15txn{db: db}
	return fn(tx)
}

func (it *c15iter) skip() {
	for it.pos < len(it.st.kvs) && it.st.kvs[it.pos].exp != 0 && it.st.kvs[it.pos].exp <= c15now {
		it.pos++
	}
}

func c15NewIterator(tx *badger.Txn, opt badger.IteratorOptions) *badger.Iterator {
	it := new(badger.Iterator)
	st := c15dbs[c15txns[tx].db]
	c15iters[it] = &c15iter{st: st, pos: len(st.kvs)}
	return it
}

func c15Seek(it *badger.Iterator, key []byte) {
	i := c15iters[it]
	i.pos = 0
	for i.pos < len(i.st.kvs) && bytes.Compare(i.st.kvs[i.pos].key, key) < 0 {
		i.pos++
	}
	i.skip()
}

func c15Valid(it *badger.Iterator) bool { i := c15iters[it]; return i.pos < len(i.st.kvs) }
func c15Next(it *badger.Iterator) {
	i := c15iters[it]
	i.pos++
	i.skip()
}
func c15IterClose(it *badger.Iterator) {}
func c15Item(it *badger.Iterator) *badger.Item {
	item := new(badger.Item)
	i := c15iters[it]
	c15items[item] = i.st.kvs[i.pos]
	return item
}
func c15Key(item *badger.Item) []byte { return c15items[item].key }
func c15ValueCopy(item *badger.Item, dst []byte) ([]byte, error) {
	return append([]byte(nil), c15items[item].val...), nil
}

func c15Repeat(ctx context.Context, interval time.Duration, action func()) context.CancelFunc {
	return func() {}
}

func c15MkdirAll(path string, perm os.FileMode) error { return nil }

// the store's directory belongs to badger: whatever the provider removes or renames there
// before opening it may be a committed write (memtable logs, value log, manifest)
var c15tampered []string

func c15Remove(name string) error      { c15tampered = append(c15tampered, name); return nil }
func c15RemoveAll(path string) error   { c15tampered = append(c15tampered, path); return nil }
func c15Rename(o, n string) error      { c15tampered = append(c15tampered, o); return nil }
func c15Truncate(n string, _ int64) error { c15tampered = append(c15tampered, n); return nil }
func c15Glob(pattern string) ([]string, error) {
	return []string{filepath.Dir(pattern) + "/00001.mem"}, nil // an unclean exit leaves such files behind
}

// The stored value: Message.Encode / DecodeMessage are decided on their own
// (VerifC15Value, package message); here they are an injective encoding and its inverse.
var c15values []message.Message

func c15Encode(m *message.Message) []byte {
	c := message.Message{
		ID:      append(message.ID(nil), m.ID...),
		Channel: append([]byte(nil), m.Channel...),
		Payload: append([]byte(nil), m.Payload...),
		TTL:     m.TTL,
	}
	c15values = append(c15values, c)
	return []byte{0xE0, byte(len(c15values) - 1)}
}

func c15DecodeMessage(buf []byte) (message.Message, error) {
	if len(buf) != 2 || buf[0] != 0xE0 || int(buf[1]) >= len(c15values) {
		return message.Message{}, errors.New("corrupt value")
	}
	return c15values[buf[1]], nil
}

// ---- harness ----

func c15same(x, y []byte) bool {
	if len(x) != len(y) {
		return false
	}
	eq := true
	for i := range x {
		eq = verifrt.And(eq, x[i] == y[i])
	}
	return eq
}

// Native replay of a kill (no stand-ins there: real badger on a temporary directory). The
// test binary re-executes itself as a child on the same draw file; the child configures the
// store, performs the stores on one processor and sends itself SIGKILL the moment the last
// Store has returned; the parent then reopens the directory the child left behind.
const (
	c15envDir  = "VERIF_C15_CHILD_DIR"
	c15envBase = "VERIF_C15_BASE"
)

func c15runChild(v *verifrt.T, dir string, base int64) {
	cmd := exec.Command(os.Args[0], os.Args[1:]...)
	cmd.Env = append(os.Environ(), c15envDir+"="+dir, c15envBase+"="+strconv.FormatInt(base, 10),
		"VERIF_DRAWS="+v.File, "VERIF_ATTEMPTS=1")
	out, err := cmd.CombinedOutput()
	if _, statErr := os.Stat(dir + "/killed"); statErr != nil {
		panic("c15: the child did not reach its kill point: " + fmt.Sprint(err) + "\n" + string(out))
	}
}

// VerifC15Restart: a history of Store calls on the disk-backed provider, configured by the
// real Configure on a directory; each message has an arbitrary channel ssid, creation time,
// payload and ttl (including the retain marker); any commit may fail. Then the broker
// stops - SSD.Close (clean shutdown) or nothing at all (killed) - and a new provider is
// configured on the same directory. For every message whose Store had returned nil and
// whose expiry lies in the future, a history query on its channel returns it with identical
// id, channel, payload and expiry; a Store that reported success is never silently dropped,
// a failed commit is reported; nothing is returned that was not handed to Store.
func VerifC15Restart(v *verifrt.T) {
	n := v.Bound("stores")
	clean := v.Bool("clean-shutdown")
	// who am I: the symbolic run, a native run doing everything itself (clean shutdown), the
	// native parent of a kill (the stores happen in the child) or that child
	child := !v.Symbolic() && os.Getenv(c15envDir) != ""
	parent := !v.Symbolic() && !clean && !child
	dir := "/data/c15"
	// "now" at the start of the run; the executor uses a fixed instant (nothing below depends
	// on its value, only on distances from it), badger's clock at the query is base + elapsed
	base := int64(1790000000)
	if v.Symbolic() {
		c15reset()
	} else if child {
		dir = os.Getenv(c15envDir)
		base, _ = strconv.ParseInt(os.Getenv(c15envBase), 10, 64)
		runtime.GOMAXPROCS(1)
	} else {
		d, err := os.MkdirTemp("", "c15")
		if err != nil {
			panic(err)
		}
		defer os.RemoveAll(d)
		dir = d + "/db"
		base = time.Now().Unix()
	}
	retain := uint32(7200)
	cfg := map[string]interface{}{"dir": dir, "retain": float64(retain)}
	if parent {
		c15runChild(v, dir, base)
	}

	var s *SSD
	if !parent {
		s = NewSSD(nil)
		v.Assert(s.Configure(cfg) == nil, "C15.store-opens")
		if v.Symbolic() {
			o := c15opened[len(c15opened)-1]
			v.Assert(!o.InMemory && o.Dir == dir && o.ValueDir == dir && !o.ReadOnly, "C15.opened-on-the-configured-directory")
		}
	}

	type sent struct {
		orig   message.Message
		ok     bool
		expiry int64
	}
	msgs := make([]sent, n)
	for i := 0; i < n; i++ {
		depth := 2
		if i > 0 {
			depth += v.Choice(2, "depth", i)
		}
		ssid := make(message.Ssid, depth)
		for k := range ssid {
			ssid[k] = v.U32("w", i, k)
			v.Assume(ssid[k] != 1815237614 && ssid[k] != 4285801373) // stored channels are static
		}
		age := int64(v.U32("age", i))
		v.Assume(age < 3*365*86400)
		t := base - age
		v.Assume(t >= security.MinTime && t < security.MaxTime)
		id := message.NewID(ssid)
		id.SetTime(t)
		// the sequence and process words of the id are fixed so that parent and child of a
		// native kill name the same messages
		binary.BigEndian.PutUint32(id[8:12], ^uint32(i+1))
		binary.BigEndian.PutUint32(id[12:16], 0x0c15c15c)
		ttl := v.U32("ttl", i)
		v.Assume(ttl > 0) // only messages with a ttl are handed to Store
		eff := int64(ttl)
		if ttl == message.RetainedTTL {
			eff = int64(retain)
		}
		expiry := t + eff
		// the expiry is clearly passed or clearly ahead for the whole run
		v.Assume(expiry < base-30 || expiry > base+3700)
		pl := 1
		if i > 0 {
			pl += v.Choice(2, "pl", i)
		}
		pay := v.Bytes(pl, "pay", i)
		m := message.Message{ID: id, Channel: []byte("a/b/"), Payload: pay, TTL: ttl}
		msgs[i] = sent{expiry: expiry, orig: message.Message{
			ID: append(message.ID(nil), id...), Channel: []byte("a/b/"), Payload: append([]byte(nil), pay...), TTL: uint32(eff)}}
		if child && i == n-1 {
			os.WriteFile(dir+"/killed", nil, 0o644) // written before the last store: nothing happens between its return and the kill
		}
		// the commit of this store may fail (natively the failing store is not attempted)
		fail := v.Bool("commit-fails", i)
		var err error
		switch {
		case v.Symbolic():
			c15failing = fail
			err = s.Store(&m)
			c15failing = false
		case fail:
			err = errors.New("commit failed")
		case parent:
			// what the child's Store returned (the child records a failure before it dies)
			if _, statErr := os.Stat(dir + "/store-failed-" + strconv.Itoa(i)); statErr == nil {
				err = errors.New("store failed in the child")
			}
		default:
			err = s.Store(&m)
			if child && err != nil {
				os.WriteFile(dir+"/store-failed-"+strconv.Itoa(i), nil, 0o644)
			}
		}
		v.Assert(!fail || err != nil, "C15.failed-commit-is-reported")
		v.Assert(fail || err == nil, "C15.store-succeeds")
		msgs[i].ok = err == nil
	}
	if child {
		syscall.Kill(os.Getpid(), syscall.SIGKILL)
		select {}
	}
	v.Reach("stored")

	// the broker stops
	if clean {
		v.Assert(s.Close() == nil, "C15.closes")
		// connections are still being served for a moment: a store that arrives now must not
		// be reported as done (nothing can be written any more)
		if v.Bool("late-store") {
			lid := message.NewID(message.Ssid{7, 9})
			lid.SetTime(base)
			late := message.Message{ID: lid, Channel: []byte("a/b/"), Payload: []byte("late"), TTL: 100000}
			v.Assert(s.Store(&late) != nil, "C15.store-after-close-is-not-reported-as-done")
		}
	}
	// ... and starts again on the same directory
	s2 := NewSSD(nil)
	v.Assert(s2.Configure(cfg) == nil, "C15.store-reopens")

	v.Reach("restarted")

	if v.Symbolic() {
		el := v.U16("elapsed")
		v.Assume(el <= 3600)
		c15now = uint64(base) + uint64(el)
	}
	for i := 0; i < n; i++ {
		ssid := msgs[i].orig.ID.Ssid()
		res := s2.lookup(lookupQuery{Ssid: ssid, From: security.MinTime, Until: security.MaxTime - 1, Limit: n + 1})
		res.Limit(n + 1)
		found := 0
		for _, r := range res {
			if c15same(r.ID, msgs[i].orig.ID) {
				found++
				v.Assert(c15same(r.Channel, msgs[i].orig.Channel) && c15same(r.Payload, msgs[i].orig.Payload), "C15.same-channel-and-payload")
				v.Assert(r.Time()+int64(r.TTL) == msgs[i].expiry, "C15.same-expiry")
			}
			// whatever comes back was handed to Store
			known := false
			for k := 0; k < n; k++ {
				known = verifrt.Or(known, c15same(r.ID, msgs[k].orig.ID))
			}
			v.Assert(known, "C15.nothing-that-was-never-stored")
		}
		live := msgs[i].expiry > base+3700
		if msgs[i].ok && live {
			v.Assert(found == 1, "C15.stored-message-survives-restart")
		}
		if !live {
			v.Assert(found == 0, "C15.expired-message-not-returned")
		}
		v.Observe("found", uint64(found))
	}
	if !v.Symbolic() {
		s2.Close()
	}
}
