package crdt

import (
	"bytes"
	"reflect"

	"github.com/kelindar/binary"

	"github.com/emitter-io/emitter/internal/verifrt"
)

// VerifC09GossipSet: the bytes of one replicated set as they arrive from the cluster port
// (after snappy and the map framing of binary.Unmarshal, which dispatches to this codec)
// are arbitrary. codecVolatile.DecodeTo must not panic, and a set it accepts must be usable
// the way Swarm.merge uses it: iterated, merged into the local state, counted.
func VerifC09GossipSet(v *verifrt.T) {
	b := v.Bytes(v.Choice(v.Bound("setbytes")+1, "n"), "g")
	var out Volatile
	d := binary.NewDecoder(bytes.NewBuffer(b))
	var err error
	p := v.Try(func() { err = new(codecVolatile).DecodeTo(d, reflect.ValueOf(&out).Elem()) })
	v.Assert(!p, "C09.gossipset.decode-no-panic")
	if err != nil {
		v.Reach("set-rejected")
		return
	}
	v.Reach("set-accepted")
	local := NewVolatile()
	local.data["k"] = newValue()
	p = v.Try(func() {
		out.Range(nil, true, func(string, Value) bool { return true })
		local.Merge(&out)
		_ = out.Count()
		_ = local.Has("k")
	})
	v.Assert(!p, "C09.gossipset.accepted-set-is-usable")
}

// VerifRaw stores an entry with the given key and times as a decoded payload would hold it.
func (s *Volatile) VerifRaw(key string, add, del int64) {
	val := newValue()
	val.setAddTime(add)
	val.setDelTime(del)
	s.data[key] = val
}

// VerifDecodeVolatile runs the set codec on a decoder (used by the state decoder stand-in).
func VerifDecodeVolatile(d *binary.Decoder, out *Volatile) error {
	return new(codecVolatile).DecodeTo(d, reflect.ValueOf(out).Elem())
}
