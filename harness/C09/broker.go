package broker

import (
	"io"

	"github.com/kelindar/rate"

	"github.com/emitter-io/emitter/internal/event"
	"github.com/emitter-io/emitter/internal/message"
	"github.com/emitter-io/emitter/internal/verifrt"
	"github.com/emitter-io/emitter/internal/security"
)

// VerifC09Process: any byte string on a client connection: Process returns, a panic
// while serving it is contained by Close, Close completes, a neighbour is untouched.
func VerifC09Process(v *verifrt.T) {
	e := c08new(v)
	a, asock := hconn(e.svc, 0)
	a.limit = new(rate.Limiter)
	b, _ := hconn(e.svc, 1)
	e.svc.connections = 2
	e.ps.Subscribe(b, &event.Subscription{Conn: b.luid, Ssid: message.Ssid{7, 1, 2}, Channel: []byte("b/")})
	n := v.Choice(v.Bound("bytes")+1, "n")
	asock.in = v.Bytes(n, "in")
	var perr error
	panicked := v.Try(func() { perr = a.Process() })
	v.Reach("process-returned")
	v.Observe("eof", uint64(verifrt.B2U(perr == io.EOF)))
	v.Observe("left", uint64(len(asock.in)))
	v.Assert(!panicked, "C09.process.panic-contained")
	v.Assert(asock.closed, "C09.process.connection-closed")
	v.Assert(e.svc.connections == 1, "C09.process.counted-out-once")
	v.Assert(e.trie.VerifHolds(a) == 0 && e.trie.VerifHolds(b) == 1, "C09.process.neighbour-untouched")
}

// VerifC09PeerMessage: whatever message the frame decoder hands over from the cluster
// port (arbitrary id bytes of any length, arbitrary channel), delivering it does not
// panic: this runs on a gossip goroutine without recover, a panic ends the process.
func VerifC09PeerMessage(v *verifrt.T) {
	e := c08new(v)
	b, _ := hconn(e.svc, 1)
	e.ps.Subscribe(b, &event.Subscription{Conn: b.luid, Ssid: message.Ssid{7, 1, 2}, Channel: []byte("b/")})
	m := &message.Message{
		ID:      v.Bytes(v.Choice(v.Bound("idlen")+1, "idn"), "id"),
		Channel: v.Bytes(v.Choice(4, "chn"), "ch"),
		Payload: []byte("p"),
	}
	panicked := v.Try(func() { e.svc.onPeerMessage(m) })
	v.Reach("peer-message-done")
	v.Assert(!panicked, "C09.peer-message.no-panic")
}

// VerifC09LargeSend: messages reach Conn.Send from goroutines that have no recover (the
// presence notifier, the mesh goroutine through onPeerMessage), with sizes a client or a
// peer chooses. Around the 64 KiB encode buffer every size is either sent whole or refused
// with an error - never a panic.
func VerifC09LargeSend(v *verifrt.T) {
	e := c08new(v)
	a, asock := hconn(e.svc, 0)
	sizes := []int{0, 65526, 65527, 65528, 65531, 65536, 65537, 70000}
	n := sizes[v.Choice(len(sizes), "size")]
	pay := make([]byte, n)
	if n > 0 {
		pay[0], pay[n-1] = v.U8("first"), v.U8("last")
	}
	var err error
	panicked := v.Try(func() { err = a.Send(&message.Message{Channel: []byte("a/"), Payload: pay}) })
	v.Reach("large-sent")
	v.Assert(!panicked, "C09.send.no-panic-at-any-size")
	if err != nil {
		v.Assert(len(asock.writes) == 0, "C09.send.refused-message-writes-nothing")
		v.Assert(n+4 > 65535-5, "C09.send.refused-only-when-too-large")
	} else {
		v.Assert(len(asock.writes) == 1 && len(asock.writes[0]) > n, "C09.send.whole-packet")
	}
}

// VerifC09Topic: the topic of a SUBSCRIBE / UNSUBSCRIBE / PUBLISH and the channel of every
// request body is parsed before anything is authorised, so any client can have the broker parse
// any bytes. security.ParseChannel on an arbitrary key-less tail "K/" + bytes: it comes back
// (no loop that a dozen bytes can keep going), does not panic and does not allocate beyond the
// input's order of magnitude.
func VerifC09Topic(v *verifrt.T) {
	// either an arbitrary channel part, or a well-formed channel followed by an arbitrary option list
	var topic []byte
	if v.Bool("options") {
		topic = append([]byte("K/a/?"), v.Bytes(v.Choice(v.Bound("optionbytes")+1, "on"), "o")...)
	} else {
		topic = append([]byte("K/"), v.Bytes(v.Choice(v.Bound("topicbytes")+1, "n"), "t")...)
	}
	panicked := false
	v.Terminates("C09.topic.parse-terminates", func() {
		panicked = v.Try(func() { security.ParseChannel(topic) })
	})
	v.Reach("topic-parsed")
	v.Assert(!panicked, "C09.topic.parse-no-panic")
}
