package event

import (
	"github.com/emitter-io/emitter/internal/event/crdt"
	"github.com/emitter-io/emitter/internal/verifrt"
)

// VerifC09Keys: subscription / connection keys arriving in gossip state are
// arbitrary strings; decoding them must not panic (Swarm.merge runs on a gossip goroutine).
func VerifC09Keys(v *verifrt.T) {
	k := string(v.Bytes(v.Choice(v.Bound("keylen")+1, "n"), "k"))
	p1 := v.Try(func() { decodeSubscription(k, nil) })
	p2 := v.Try(func() { decodeConnection(k, nil) })
	v.Reach("decoded")
	v.Assert(!p1, "C09.keys.decode-subscription-no-panic")
	v.Assert(!p2, "C09.keys.decode-connection-no-panic")
}

// VerifRawSub puts a subscription entry with an arbitrary key and times into a state, the
// way a payload decoded from the cluster port can contain it.
func (st *State) VerifRawSub(key string, add, del int64) {
	st.subsets[typeSub].(*crdt.Volatile).VerifRaw(key, add, del)
}
