package event

import (
	"bytes"

	"github.com/golang/snappy"
	"github.com/kelindar/binary"
	"github.com/kelindar/binary/nocopy"

	"github.com/emitter-io/emitter/internal/event/crdt"
	"github.com/emitter-io/emitter/internal/message"
	"github.com/emitter-io/emitter/internal/verifrt"
)

// VerifC09Keys: subscription / connection keys arriving in gossip state are
// arbitrary strings; decoding them must not panic (Swarm.merge runs on a gossip goroutine).
func VerifC09Keys(v *verifrt.T) {
	k := string(v.Bytes(v.Choice(v.Bound("keylen")+1, "n"), "k"))
	p1 := v.Try(func() { decodeSubscription(k, nil) })
	p2 := v.Try(func() { decodeConnection(k, nil) })
	v.Reach("decoded")
	v.Assert(!p1, "C09.keys.decode-subscription-no-panic")
	v.Assert(!p2, "C09.keys.decode-connection-no-panic")
}

// VerifRawSub puts a subscription entry with an arbitrary key and times into a state, the
// way a payload decoded from the cluster port can contain it.
func (st *State) VerifRawSub(key string, add, del int64) {
	st.subsets[typeSub].(*crdt.Volatile).VerifRaw(key, add, del)
}

func c09esSnappyDecode(dst, src []byte) ([]byte, error) {
	if len(src) <= len(dst) { // like the real one: into dst when it is long enough
		return dst[:copy(dst, src)], nil
	}
	return append([]byte(nil), src...), nil
}

// binary.Unmarshal into a *map[uint8]crdt.Volatile is kelindar/binary's reflectMapCodec
// (codecs.go v1.0.19: entry count, then per entry a varuint key and the value through its
// codec - here emitter's own codecVolatile, executed from source), transcribed over the real
// Decoder.
func c09esUnmarshal(b []byte, out interface{}) error {
	d := binary.NewDecoder(bytes.NewBuffer(b))
	m := out.(*map[uint8]crdt.Volatile)
	l, err := d.ReadUvarint()
	if err != nil {
		return err
	}
	*m = map[uint8]crdt.Volatile{}
	for i := 0; i < int(l); i++ {
		k, err := d.ReadUvarint()
		if err != nil {
			return err
		}
		var vol crdt.Volatile
		if err = crdt.VerifDecodeVolatile(d, &vol); err != nil {
			return err
		}
		(*m)[uint8(k)] = vol
	}
	return nil
}

// VerifC09DecodeState: the gossip payload itself - arbitrary bytes from the cluster port -
// through the real DecodeState and then used the way Swarm.merge uses the result on the
// mesh goroutine: iterated, merged into the local state, its connections listed. A payload
// that is accepted must be usable whatever subsets it carries (none, some, unknown types).
func VerifC09DecodeState(v *verifrt.T) {
	b := v.Bytes(v.Choice(v.Bound("statebytes")+1, "n"), "s")
	in := b
	if !v.Symbolic() {
		in = snappy.Encode(nil, b)
	}
	var st *State
	var err error
	panicked := v.Try(func() { st, err = DecodeState(in) })
	v.Assert(!panicked, "C09.state.decode-no-panic")
	if err != nil {
		v.Reach("state-rejected")
		return
	}
	v.Reach("state-accepted")
	local := NewState("")
	local.Add(&Subscription{Peer: 2, Conn: 3, Ssid: message.Ssid{1, 2}, Channel: []byte("a/")})
	panicked = v.Try(func() {
		st.Subscriptions(func(*Subscription, Value) {})
		_ = local.Merge(st)
		st.Subscriptions(func(*Subscription, Value) {})
		st.ConnectionsOf(2, func(*Connection) {})
		_ = local.Has(&Subscription{Peer: 2, Conn: 3, Ssid: message.Ssid{1, 2}})
	})
	v.Assert(!panicked, "C09.state.accepted-payload-is-usable")
}

func c09esMarshal(val interface{}) ([]byte, error) { return []byte{}, nil }

// binary.Unmarshal into a *Connection: the struct codec over WillFlag, WillRetain (one byte
// each), WillQoS (varuint) and four byte slices (byteSliceCodec: declared length, allocation,
// then the bytes), transcribed from codecs.go v1.0.19 over the real Decoder.
func c09esUnmarshalConn(b []byte, out interface{}) error {
	d := binary.NewDecoder(bytes.NewBuffer(b))
	e := out.(*Connection)
	var err error
	if e.WillFlag, err = d.ReadBool(); err != nil {
		return err
	}
	if e.WillRetain, err = d.ReadBool(); err != nil {
		return err
	}
	q, err := d.ReadUvarint()
	if err != nil {
		return err
	}
	e.WillQoS = uint8(q)
	for _, f := range []*[]byte{&e.WillTopic, &e.WillMessage, &e.ClientID, &e.Username} {
		var l uint64
		if l, err = d.ReadUvarint(); err == nil && l > 0 {
			data := make([]byte, int(l), int(l))
			if _, err = d.Read(data); err == nil {
				*f = data
			}
		}
		if err != nil {
			return err
		}
	}
	return nil
}

// VerifC09ConnValue: the value of a replicated connection entry (last-will data) is bytes
// from the cluster port; it is decoded when the peer it belongs to is garbage-collected and
// this broker is its fallback. Arbitrary value bytes must not panic or allocate for a
// declared length.
func VerifC09ConnValue(v *verifrt.T) {
	val := v.Bytes(v.Choice(v.Bound("connvalue")+1, "n"), "c")
	key := string(make([]byte, 16))
	panicked := v.Try(func() { decodeConnection(key, val) })
	v.Reach("connection-decoded")
	v.Assert(!panicked, "C09.connection-value.no-panic")
}

// binary.Unmarshal into a *Subscription: the struct codec over User (nocopy string codec) and
// Channel (nocopy byte-slice codec) - both read a declared length and take a zero-copy slice
// of the input (nocopy/codecs.go v1.0.19) -, transcribed over the real Decoder; the other
// fields are not encoded.
func c09esUnmarshalSub(b []byte, out interface{}) error {
	d := binary.NewDecoder(bytes.NewBuffer(b))
	e := out.(*Subscription)
	l, err := d.ReadUvarint()
	if err != nil {
		return err
	}
	u, err := d.Slice(int(l))
	if err != nil {
		return err
	}
	e.User = nocopy.String(binary.ToString(&u))
	if l, err = d.ReadUvarint(); err == nil && l > 0 {
		var c []byte
		if c, err = d.Slice(int(l)); err == nil {
			e.Channel = c
		}
	}
	return err
}

// VerifC09SubValue: the value bytes of a replicated subscription entry (user name and
// channel) come from the cluster port and are decoded for every entry while a payload is
// merged (State.Subscriptions, on the mesh goroutine): arbitrary bytes must not panic.
func VerifC09SubValue(v *verifrt.T) {
	val := v.Bytes(v.Choice(v.Bound("subvalue")+1, "n"), "u")
	key := string(make([]byte, 24))
	panicked := v.Try(func() { decodeSubscription(key, val) })
	v.Reach("subscription-value-decoded")
	v.Assert(!panicked, "C09.subscription-value.no-panic")
}
