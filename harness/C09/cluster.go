package cluster

import (
	"encoding/binary"

	"github.com/weaveworks/mesh"

	"github.com/emitter-io/emitter/internal/event"
	"github.com/emitter-io/emitter/internal/message"
	"github.com/emitter-io/emitter/internal/verifrt"
)

// VerifC09MergeKeys: a gossip payload from the cluster port is a well-framed state whose
// subscription keys are arbitrary byte strings (a foreign or hostile peer chooses them;
// only the 16-byte peer/connection prefix is fixed by the decoder) with arbitrary add and
// remove times. Swarm.merge runs on the mesh gossip goroutine without recover: it must not
// panic, whatever the keys are, both when the key becomes active and when a later payload
// removes it again; afterwards the broker still routes an ordinary subscription.
func VerifC09MergeKeys(v *verifrt.T) {
	a := c05new(1)
	// length of the key beyond the fixed prefix: empty, partial words, one word, two words ...
	lens := []int{0, 3, 4, 8, 7, 11, 12, 13}
	n := 16 + lens[v.Choice(v.Bound("subkeylens"), "n")]
	key := make([]byte, n)
	key[7] = v.U8("peer") // ourselves (1), the peer of the ordinary payload below (3), or another
	key[15] = 9           // connection id
	copy(key[16:], v.Bytes(n-16, "k"))
	add, del := v.I64("add"), v.I64("del")
	v.Assume(add >= 0 && del >= 0)
	p1 := event.NewState("")
	p1.VerifRawSub(string(key), add, del)
	panicked := v.Try(func() { a.deliver(v, p1) })
	v.Assert(!panicked, "C09.merge.arbitrary-subscription-key-no-panic")
	v.Reach("merged-raw-key")
	// the same key again with the times the other way round (a removal after an add and
	// the reverse are both transitions)
	p2 := event.NewState("")
	p2.VerifRawSub(string(key), del, add)
	panicked = v.Try(func() { a.deliver(v, p2) })
	v.Assert(!panicked, "C09.merge.arbitrary-subscription-key-removal-no-panic")
	// peer garbage collection walks the same keys
	if v.Bool("gc") {
		panicked = v.Try(func() { a.swarm.onPeerOffline(mesh.PeerName(binary.BigEndian.Uint64(key[:8]))) })
		v.Assert(!panicked, "C09.merge.peer-offline-no-panic")
	}
	// an ordinary subscription of peer 3 is still routed
	ssid := message.Ssid{7, 11}
	ok := event.NewState("")
	ok.Add(&event.Subscription{Peer: 3, Conn: 5, Ssid: ssid, Channel: []byte("a/")})
	panicked = v.Try(func() { a.deliver(v, ok) })
	v.Assert(!panicked, "C09.merge.ordinary-payload-after-hostile-no-panic")
	if key[7] != 3 { // (a key of peer 3 itself may legitimately out-date peer 3's subscription)
		v.Assert(a.routes(ssid, 3) == 1, "C09.merge.still-routing-after-hostile-payload")
	}
	v.Reach("routing-after-hostile")
}
