package survey

import (
	"github.com/weaveworks/mesh"

	"github.com/emitter-io/emitter/internal/message"
	"github.com/emitter-io/emitter/internal/verifrt"
)

type c09gossip struct{}

func (c09gossip) ID() uint64                                      { return 1 }
func (c09gossip) NumPeers() int                                   { return 2 }
func (c09gossip) SendTo(mesh.PeerName, *message.Message) error     { return nil }

// VerifC09Survey: a survey request from a peer carries an arbitrary channel string.
func VerifC09Survey(v *verifrt.T) {
	s := New(nil, c09gossip{})
	id := message.NewID(message.Ssid{0, 3939663052, 9})
	m := &message.Message{ID: id, Channel: v.Bytes(v.Choice(v.Bound("chanlen")+1, "n"), "ch"), Payload: []byte("x")}
	panicked := v.Try(func() { s.Send(m) })
	v.Reach("survey-done")
	v.Assert(!panicked, "C09.survey.no-panic")
}
