package message

import (
	"bytes"

	"github.com/kelindar/binary"

	"github.com/emitter-io/emitter/internal/verifrt"
)

// VerifC09ReadBytes: the message codec's field reader on arbitrary bytes from the
// cluster port never panics and never allocates beyond the input.
func VerifC09ReadBytes(v *verifrt.T) {
	b := v.Bytes(v.Choice(v.Bound("rbbytes")+1, "n"), "in")
	d := binary.NewDecoder(bytes.NewBuffer(b))
	var err error
	var out []byte
	panicked := v.Try(func() { out, err = readBytes(d) })
	v.Reach("read")
	v.Assert(!panicked, "C09.readbytes.no-panic")
	v.Assert(err != nil || len(out) <= len(b), "C09.readbytes.within-input")
}

// VerifC09IDAccessors: the accessors onPeerMessage relies on, on arbitrary id bytes.
func VerifC09IDAccessors(v *verifrt.T) {
	id := ID(v.Bytes(v.Choice(v.Bound("idlen")+1, "idn"), "id"))
	m := &Message{ID: id}
	var s Ssid
	p1 := v.Try(func() { s = m.Ssid() })
	p2 := v.Try(func() { _ = m.Contract() })
	v.Reach("accessed")
	if len(id) >= fixed+4 {
		v.Assert(!p1 && !p2, "C09.id.accessors-safe-on-well-sized-ids")
		v.Assert(len(s) == (len(id)-fixed)/4, "C09.id.ssid-length")
	}
}
