package message

import (
	"bytes"
	"reflect"

	"github.com/golang/snappy"
	"github.com/kelindar/binary"

	"github.com/emitter-io/emitter/internal/verifrt"
)

// VerifC09ReadBytes: the message codec's field reader on arbitrary bytes from the
// cluster port never panics and never allocates beyond the input.
func VerifC09ReadBytes(v *verifrt.T) {
	b := v.Bytes(v.Choice(v.Bound("rbbytes")+1, "n"), "in")
	d := binary.NewDecoder(bytes.NewBuffer(b))
	var err error
	var out []byte
	panicked := v.Try(func() { out, err = readBytes(d) })
	v.Reach("read")
	v.Assert(!panicked, "C09.readbytes.no-panic")
	v.Assert(err != nil || len(out) <= len(b), "C09.readbytes.within-input")
}

// VerifC09IDAccessors: the accessors onPeerMessage relies on, on arbitrary id bytes.
func VerifC09IDAccessors(v *verifrt.T) {
	id := ID(v.Bytes(v.Choice(v.Bound("idlen")+1, "idn"), "id"))
	m := &Message{ID: id}
	var s Ssid
	p1 := v.Try(func() { s = m.Ssid() })
	p2 := v.Try(func() { _ = m.Contract() })
	v.Reach("accessed")
	if len(id) >= fixed+4 {
		v.Assert(!p1 && !p2, "C09.id.accessors-safe-on-well-sized-ids")
		v.Assert(len(s) == (len(id)-fixed)/4, "C09.id.ssid-length")
	}
}

// ---- kelindar/binary's reflection codecs, transcribed for the types the cluster port decodes ----
//
// binary.Unmarshal finds codecs by reflection, which the executor does not interpret. What
// matters for hostile input is how the slice codecs size their result: they read the element
// count and allocate for the *declared* count before reading a single element
// (codecs.go: reflectSliceCodec.DecodeTo / varuintSliceCodec.DecodeTo / byteSliceCodec.DecodeTo,
// v1.0.19). The stand-ins below follow those functions line by line over the real Decoder.

func c09SnappyDecode(dst, src []byte) ([]byte, error) {
	if len(src) <= len(dst) { // like the real one: into dst when it is long enough
		return dst[:copy(dst, src)], nil
	}
	return append([]byte(nil), src...), nil
}

func c09Unmarshal(b []byte, out interface{}) error {
	d := binary.NewDecoder(bytes.NewBuffer(b))
	switch o := out.(type) {
	case *Frame: // reflectSliceCodec with the messageCodec as element codec
		l, err := d.ReadUvarint()
		if err == nil && l > 0 {
			*o = make(Frame, int(l))
			for i := 0; i < int(l); i++ {
				if err = new(messageCodec).DecodeTo(d, reflect.ValueOf(&(*o)[i]).Elem()); err != nil {
					return err
				}
			}
		}
		return err
	case *Message:
		return new(messageCodec).DecodeTo(d, reflect.ValueOf(o).Elem())
	}
	panic("c09Unmarshal: type not transcribed")
}

// VerifC09DecodeFrame: every unicast from a peer is DecodeFrame(bytes from the cluster port),
// called on the mesh goroutine. Arbitrary bytes must not panic and must not make the decoder
// allocate more message slots than the payload has bytes.
func VerifC09DecodeFrame(v *verifrt.T) {
	b := v.Bytes(v.Choice(v.Bound("framebytes")+1, "n"), "f")
	in := b
	if !v.Symbolic() {
		in = snappy.Encode(nil, b) // (the stand-in for snappy.Decode is the identity)
	}
	var f Frame
	panicked := v.Try(func() { f, _ = DecodeFrame(in) })
	v.Reach("frame-decoded")
	v.Assert(!panicked, "C09.frame.decode-no-panic")
	v.Assert(cap(f) <= len(b), "C09.frame.slots-within-input")
}
