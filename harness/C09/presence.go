package presence

import (
	"github.com/kelindar/binary"

	"github.com/emitter-io/emitter/internal/message"
	"github.com/emitter-io/emitter/internal/verifrt"
)

// kelindar/binary decodes by reflection; what it can yield for a *message.Ssid is any
// sequence of 32-bit words, including none: the stand-in hands over the harness's choice.
var c09psTarget message.Ssid

func c09psUnmarshal(b []byte, out interface{}) error {
	*(out.(*message.Ssid)) = c09psTarget
	return nil
}

func c09psMarshal(val interface{}) ([]byte, error) { return []byte{1}, nil }

type c09psSub struct{ id string }

func (s *c09psSub) ID() string                    { return s.id }
func (s *c09psSub) Type() message.SubscriberType  { return message.SubscriberDirect }
func (s *c09psSub) Send(m *message.Message) error { return nil }

// VerifC09PresenceSurvey: a presence survey arrives in a peer frame (cluster port) and is
// handled on the mesh goroutine, which has no recover; its payload decodes to an arbitrary
// ssid - no words, one word, wildcard words. OnSurvey must not panic, and must not leave
// the subscription index locked (the lookup holds the read lock without a deferred unlock).
func VerifC09PresenceSurvey(v *verifrt.T) {
	trie := message.NewTrie()
	s := &Service{trie: trie}
	trie.Subscribe(message.Ssid{1, 2}, &c09psSub{id: "x"})
	n := v.Choice(v.Bound("surveyssid")+1, "n")
	ssid := make(message.Ssid, n)
	for i := range ssid {
		ssid[i] = v.U32("w", i)
	}
	payload := []byte{0}
	if v.Symbolic() {
		c09psTarget = ssid
	} else {
		payload, _ = binary.Marshal(ssid)
	}
	panicked := v.Try(func() { s.OnSurvey("presence", payload) })
	v.Assert(!panicked, "C09.presence-survey.no-panic")
	v.Reach("surveyed")
	// the index is still usable (a panic between RLock and RUnlock would leave it locked)
	locked := !trie.TryLock()
	v.Assert(!locked, "C09.presence-survey.index-not-left-locked")
	if !locked {
		trie.Unlock()
	}
}
