package presence

import (
	"bytes"
	"time"

	"github.com/kelindar/binary"

	"github.com/emitter-io/emitter/internal/message"
	"github.com/emitter-io/emitter/internal/verifrt"
)

// binary.Unmarshal into a *message.Ssid is kelindar/binary's varuintSliceCodec.DecodeTo
// (codecs.go, v1.0.19), transcribed over the real Decoder: the element count is read, the
// slice is allocated for the declared count, and the loop runs for that many elements even
// after a read error.
func c09psUnmarshal(b []byte, out interface{}) error {
	d := binary.NewDecoder(bytes.NewBuffer(b))
	o := out.(*message.Ssid)
	var l, x uint64
	var err error
	if l, err = d.ReadUvarint(); err == nil && l > 0 {
		*o = make(message.Ssid, int(l))
		for i := 0; i < int(l); i++ {
			if x, err = d.ReadUvarint(); err == nil {
				(*o)[i] = uint32(x)
			}
		}
	}
	return err
}

func c09psMarshal(val interface{}) ([]byte, error) { return []byte{1}, nil }

type c09psSub struct{ id string }

func (s *c09psSub) ID() string                    { return s.id }
func (s *c09psSub) Type() message.SubscriberType  { return message.SubscriberDirect }
func (s *c09psSub) Send(m *message.Message) error { return nil }

// VerifC09PresenceSurvey: a presence survey arrives in a peer frame (cluster port) and is
// handled on the mesh goroutine, which has no recover; its payload is arbitrary bytes, which
// decode to an arbitrary ssid - no words, one word, wildcard words, a huge declared count. OnSurvey must not panic, and must not leave
// the subscription index locked (the lookup holds the read lock without a deferred unlock).
func VerifC09PresenceSurvey(v *verifrt.T) {
	trie := message.NewTrie()
	s := &Service{trie: trie}
	trie.Subscribe(message.Ssid{1, 2}, &c09psSub{id: "x"})
	payload := v.Bytes(v.Choice(v.Bound("surveybytes")+1, "n"), "p")
	panicked := v.Try(func() { s.OnSurvey("presence", payload) })
	v.Assert(!panicked, "C09.presence-survey.no-panic")
	v.Reach("surveyed")
	// the index is still usable (a panic between RLock and RUnlock would leave it locked)
	locked := !trie.TryLock()
	v.Assert(!locked, "C09.presence-survey.index-not-left-locked")
	if !locked {
		trie.Unlock()
	}
}

// ---- survey responses ----

type c09psAwaiter struct{ resp [][]byte }

func (a *c09psAwaiter) Gather(time.Duration) [][]byte { return a.resp }

type c09psSurvey struct{ resp [][]byte }

func (s *c09psSurvey) Query(string, []byte) (message.Awaiter, error) {
	return &c09psAwaiter{resp: s.resp}, nil
}

// binary.Unmarshal into a *[]Info: reflectSliceCodec (count, allocation for the declared
// count, then every element) over the struct codec of Info (two strings read with
// ReadString), transcribed from codecs.go v1.0.19 over the real Decoder.
func c09psUnmarshalInfo(b []byte, out interface{}) error {
	if o, ok := out.(*message.Ssid); ok {
		return c09psUnmarshal(b, o)
	}
	d := binary.NewDecoder(bytes.NewBuffer(b))
	o := out.(*[]Info)
	l, err := d.ReadUvarint()
	if err == nil && l > 0 {
		*o = make([]Info, int(l))
		for i := 0; i < int(l); i++ {
			if (*o)[i].ID, err = d.ReadString(); err != nil {
				return err
			}
			if (*o)[i].Username, err = d.ReadString(); err != nil {
				return err
			}
		}
	}
	return err
}

// VerifC09PresenceResponse: the answer of a peer to a presence survey is arbitrary bytes
// too; gathering the cluster's presence must not panic or allocate for a declared count.
func VerifC09PresenceResponse(v *verifrt.T) {
	resp := v.Bytes(v.Choice(v.Bound("surveybytes")+1, "n"), "r")
	s := &Service{trie: message.NewTrie(), survey: &c09psSurvey{resp: [][]byte{resp}}}
	var who []Info
	panicked := v.Try(func() { who = s.getClusterPresence(message.Ssid{1, 2}) })
	v.Reach("responses-gathered")
	v.Assert(!panicked, "C09.presence-response.no-panic")
	v.Assert(len(who) <= len(resp), "C09.presence-response.entries-within-input")
}
