package storage

import (
	"github.com/dgraph-io/badger/v3"

	"github.com/emitter-io/emitter/internal/message"
	"github.com/emitter-io/emitter/internal/verifrt"
)

func c09View(db *badger.DB, fn func(tx *badger.Txn) error) error { return nil }

// VerifC09Lookup: the history lookup sizes its result buffer from a number the client
// (last=...) or a peer (survey payload) supplies: any value must neither panic nor
// allocate out of proportion.
func VerifC09Lookup(v *verifrt.T) {
	var s *SSD
	if v.Symbolic() {
		s = &SSD{db: new(badger.DB)}
	} else {
		mem := NewInMemory(nil)
		mem.Configure(nil)
		s = &mem.SSD
	}
	q := lookupQuery{Ssid: message.Ssid{1, 2}, From: v.I64("from"), Until: v.I64("until"), Limit: v.Int("limit")}
	if v.Bool("fromclient") {
		v.Assume(q.Limit >= 0) // the `last` option cannot be negative (digits only)
	}
	v.Assume(q.Limit <= 1000000) // larger values take the same path (and would exhaust memory in a native replay)
	var f message.Frame
	panicked := v.Try(func() { f = s.lookup(q) })
	v.Reach("looked-up")
	v.Assert(!panicked, "C09.lookup.no-panic")
	v.Assert(cap(f) <= 70000, "C09.alloc-bounded")
}
