package storage

import (
	"bytes"

	"github.com/dgraph-io/badger/v3"
	"github.com/kelindar/binary"

	"github.com/emitter-io/emitter/internal/message"
	"github.com/emitter-io/emitter/internal/verifrt"
)

func c09View(db *badger.DB, fn func(tx *badger.Txn) error) error { return nil }

// VerifC09Lookup: the history lookup sizes its result buffer from a number the client
// (last=...) or a peer (survey payload) supplies: any value must neither panic nor
// allocate out of proportion.
func VerifC09Lookup(v *verifrt.T) {
	var s *SSD
	if v.Symbolic() {
		s = &SSD{db: new(badger.DB)}
	} else {
		mem := NewInMemory(nil)
		mem.Configure(nil)
		s = &mem.SSD
	}
	q := lookupQuery{Ssid: message.Ssid{1, 2}, From: v.I64("from"), Until: v.I64("until"), Limit: v.Int("limit")}
	if v.Bool("fromclient") {
		v.Assume(q.Limit >= 0) // the `last` option cannot be negative (digits only)
	}
	v.Assume(q.Limit <= 1000000) // larger values take the same path (and would exhaust memory in a native replay)
	var f message.Frame
	panicked := v.Try(func() { f = s.lookup(q) })
	v.Reach("looked-up")
	v.Assert(!panicked, "C09.lookup.no-panic")
	v.Assert(cap(f) <= 70000, "C09.alloc-bounded")
}

// binary.Unmarshal into a *lookupQuery is kelindar/binary's reflectStructCodec over the
// fields in declaration order: Ssid (varuintSliceCodec), From and Until (varintCodec),
// StartFromID (byteSliceCodec), Limit (varintCodec) - transcribed from codecs.go v1.0.19
// over the real Decoder. Both slice codecs allocate for the declared length before reading.
func c09Unmarshal(b []byte, out interface{}) error {
	d := binary.NewDecoder(bytes.NewBuffer(b))
	q := out.(*lookupQuery)
	var l, x uint64
	var err error
	if l, err = d.ReadUvarint(); err == nil && l > 0 {
		q.Ssid = make(message.Ssid, int(l))
		for i := 0; i < int(l); i++ {
			if x, err = d.ReadUvarint(); err == nil {
				q.Ssid[i] = uint32(x)
			}
		}
	}
	if err != nil {
		return err
	}
	if q.From, err = d.ReadVarint(); err != nil {
		return err
	}
	if q.Until, err = d.ReadVarint(); err != nil {
		return err
	}
	if l, err = d.ReadUvarint(); err == nil && l > 0 {
		data := make([]byte, int(l), int(l))
		if _, err = d.Read(data); err == nil {
			q.StartFromID = data
		}
	}
	if err != nil {
		return err
	}
	lim, err := d.ReadVarint()
	q.Limit = int(lim)
	return err
}

// VerifC09StoreSurvey: a history survey ("ssdstore") arrives in a peer frame and is handled
// on the mesh goroutine; its payload is arbitrary bytes. OnSurvey must not panic and must
// not allocate out of proportion to those bytes.
func VerifC09StoreSurvey(v *verifrt.T) {
	var s *SSD
	if v.Symbolic() {
		s = &SSD{db: new(badger.DB)}
	} else {
		mem := NewInMemory(nil)
		mem.Configure(nil)
		s = &mem.SSD
	}
	payload := v.Bytes(v.Choice(v.Bound("surveybytes")+1, "n"), "p")
	panicked := v.Try(func() { s.OnSurvey("ssdstore", payload) })
	v.Reach("store-surveyed")
	v.Assert(!panicked, "C09.store-survey.no-panic")
}

func c09FrameEncode(f *message.Frame) []byte { return []byte{byte(len(*f))} }
