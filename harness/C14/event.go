package event

import "github.com/emitter-io/emitter/internal/event/crdt"

// VerifBanTimes exposes the add / remove time a one-operation ban payload carries
// (harness-only accessor, injected by overlay).
func (st *State) VerifBanTimes() [2]int64 {
	t := st.subsets[typeBan].Get("the-key")
	return [2]int64{t.AddTime(), t.DelTime()}
}

// VerifBanExpires reports whether the durable ban entry is stored with an expiry.
func (st *State) VerifBanExpires(symbolic bool) bool {
	d, ok := st.subsets[typeBan].(*crdt.Durable)
	return ok && d.VerifExpires("the-key", symbolic)
}

// VerifHop sends a state through the set codecs (one gossip hop; the framing of the three
// sets by binary.Marshal and snappy are outside). The result is what DecodeState builds:
// volatile sets.
func (st *State) VerifHop() (*State, error) {
	out := NewState("")
	for typ, set := range st.subsets {
		v, err := crdt.VerifCodecHop(set)
		if err != nil {
			return nil, err
		}
		out.subsets[typ] = v
	}
	return out, nil
}
