package event

// VerifBanTimes exposes the add / remove time a one-operation ban payload carries
// (harness-only accessor, injected by overlay).
func (st *State) VerifBanTimes() [2]int64 {
	t := st.subsets[typeBan].Get("the-key")
	return [2]int64{t.AddTime(), t.DelTime()}
}
