package cluster

import (
	"errors"
	"encoding/json"
	"os"

	"github.com/weaveworks/mesh"

	"github.com/emitter-io/emitter/internal/event"
	"github.com/emitter-io/emitter/internal/event/crdt"
	"github.com/emitter-io/emitter/internal/security"
	"github.com/emitter-io/emitter/internal/service/keyban"
	"github.com/emitter-io/emitter/internal/verifrt"
)

// ---- environment ----

type c14gossip struct{ sent []*event.State }

func (g *c14gossip) GossipUnicast(dst mesh.PeerName, msg []byte) error { return nil }
func (g *c14gossip) GossipBroadcast(update mesh.GossipData)           { g.sent = append(g.sent, update.(*event.State)) }
func (g *c14gossip) GossipNeighbourSubset(update mesh.GossipData)     {}

type c14dec struct{}

func (c14dec) DecryptKey(k string) (security.Key, error) {
	// the license cipher decrypts exactly the strings that were issued (C20)
	if k != "master" && k != "the-key" {
		return nil, errors.New("cipher: the key provided is not valid")
	}
	key := security.Key(make([]byte, 24))
	key.SetContract(7)
	key.SetSignature(9)
	if k == "master" {
		key.SetPermissions(security.AllowMaster)
	} else {
		key.SetPermissions(security.AllowReadWrite)
	}
	return key, nil
}

var c14pending keyban.Request

// c14Unmarshal stands in for encoding/json.Unmarshal under the symbolic executor.
func c14Unmarshal(data []byte, v interface{}) error {
	*(v.(*keyban.Request)) = c14pending
	return nil
}

func c14request(v *verifrt.T, kb *keyban.Service, banned bool) bool {
	return c14requestFor(v, kb, "the-key", banned)
}

func c14requestFor(v *verifrt.T, kb *keyban.Service, target string, banned bool) bool {
	req := keyban.Request{Secret: "master", Target: target, Banned: banned}
	var payload []byte
	if v.Symbolic() {
		c14pending = req
	} else {
		payload, _ = json.Marshal(&req)
	}
	_, ok := kb.OnRequest(nil, payload)
	return ok
}

var c14clock int64

// VerifC14: any sequence of ban / unban / use / restart on broker A (durable state in a
// state directory, 60 s read cache in front of it), with the broadcast payloads delivered to a second durable
// broker B that may have looked the key up before.
func VerifC14(v *verifrt.T) { c14history(v, nil) }

// VerifC14Shapes: the same oracle on longer histories of fixed shape (clock steps still
// arbitrary): the shapes in which the second broker has looked the key up (so its answer
// sits in the 60 s read cache) before the gossip that changes it is merged, and in which
// broker A restarts between toggles.
func VerifC14Shapes(v *verifrt.T) {
	shapes := [][]int{
		{0, 3, 4, 1, 3, 4},       // ban, deliver, use on B, unban, deliver, use on B
		{0, 3, 1, 3, 4, 0, 3, 4}, // ... the key has a tombstone on B and was looked up, then a ban arrives
		{0, 1, 5, 2, 0, 5, 2},    // toggle, restart, use, ban, restart, use
		{0, 3, 4, 5, 1, 3, 4, 2}, // restart of A between the ban and the unban
		{0, 1, 6, 0, 7, 7, 7, 8, 4}, // ban, unban, seven hours, ban again; the broadcasts are lost, the full state carries it
		{9, 2, 0, 9, 2, 3, 4},       // padded targets before and after a real ban
	}
	c14history(v, shapes[v.Choice(len(shapes), "shape")])
}

func c14history(v *verifrt.T, kinds []int) {
	crdt.Now = func() int64 { return c14clock }
	c14clock = 1000
	ga := &c14gossip{}
	// A keeps its bans in a state directory (so that it can restart on it)
	dir := "/c14-state-a"
	if !v.Symbolic() {
		d, err := os.MkdirTemp("", "c14")
		if err != nil {
			panic(err)
		}
		defer os.RemoveAll(d)
		dir = d
	}
	a := &Swarm{state: event.NewState(dir), gossip: ga}
	b := &Swarm{state: event.NewState(":memory:"), gossip: &c14gossip{}}
	kb := keyban.New(nil, c14dec{}, a)
	ban := event.Ban("the-key")
	n := v.Bound("ops")
	if kinds != nil {
		n = len(kinds)
	}
	skew := int64(v.U16("skew")) % 3600 // B's clock is this many seconds behind A's
	skew *= 1000000000
	banned := false                // what A has acknowledged last
	var bAdd, bDel int64           // what has been delivered to B
	delivered := 0
	for i := 0; i < n; i++ {
		c14clock += 1 + int64(v.U8("dt", i)) // acknowledged operations are at least 1 ns apart
		op := 0
		if kinds != nil {
			op = kinds[i]
		} else {
			op = v.Choice(6, "op", i)
		}
		switch op {
		case 5: // A stops and starts again on the same state directory
			a.state.Close()
			a = &Swarm{state: event.NewState(dir), gossip: ga}
			kb = keyban.New(nil, c14dec{}, a)
		case 0: // ban
			v.Assert(c14request(v, kb, true), "C14.ban-acknowledged")
			if !banned {
				banned = true
			}
		case 1: // unban
			v.Assert(c14request(v, kb, false), "C14.unban-acknowledged")
			banned = false
		case 2: // use the key on A (Service.Authorize consults exactly this)
			v.Assert(a.Contains(&ban) == banned, "C14.use-on-A-follows-last-acknowledged")
		case 3: // deliver the oldest undelivered broadcast to B (state-level merge; codec outside)
			if delivered < len(ga.sent) {
				p := ga.sent[delivered]
				sentTimes := p.VerifBanTimes() // what A put on the wire
				delivered++
				// the payload crosses the wire (set codecs) and is decoded on B, whose clock
				// may be behind A's by up to an hour
				crdt.Now = func() int64 { return c14clock - skew }
				p, err := p.VerifHop()
				crdt.Now = func() int64 { return c14clock }
				v.Assert(err == nil, "C14.payload-survives-the-hop")
				t := sentTimes
				if t[0] > bAdd {
					bAdd = t[0]
				}
				if t[1] > bDel {
					bDel = t[1]
				}
				b.state.Merge(p)
			}
		case 4: // use the key on B
			v.Assert(b.Contains(&ban) == (bAdd != 0 && bAdd >= bDel), "C14.use-on-B-follows-merged-gossip")
		case 6: // seven hours pass (tombstones older than six hours may be forgotten, bans may not)
			c14clock += 7 * 3600 * 1000000000
		case 7: // the oldest undelivered broadcast is lost
			if delivered < len(ga.sent) {
				delivered++
			}
		case 8: // periodic full-state gossip A -> B: A's complete (durable) state through the wire codecs
			if g := a.Gossip(); g != nil {
				full := g.(*event.State)
				t := full.VerifBanTimes()
				crdt.Now = func() int64 { return c14clock - skew }
				p, err := full.VerifHop()
				crdt.Now = func() int64 { return c14clock }
				v.Assert(err == nil, "C14.payload-survives-the-hop")
				if t[0] > bAdd {
					bAdd = t[0]
				}
				if t[1] > bDel {
					bDel = t[1]
				}
				b.state.Merge(p)
			}
		case 9: // a ban request whose target is the key with white space around it (a pasted line):
			// that is not a key that was issued; acknowledged or not, the key itself keeps its status
			ok := c14requestFor(v, kb, "the-key\n", !banned)
			v.Assert(!ok, "C14.request-for-a-string-that-is-not-a-key-is-refused")
		}
	}
	v.Reach("history-done")
	v.Assert(a.Contains(&ban) == banned, "C14.final-use-on-A")
	// a ban in force stays in force: its entry is not stored with an expiry (only tombstones
	// of lifted bans are, so that they can be forgotten after six hours)
	if banned {
		v.Assert(!a.state.VerifBanExpires(v.Symbolic()), "C14.ban-in-force-is-stored-without-expiry")
	}
	v.Observe("banned", uint64(verifrt.B2U(a.Contains(&ban))))
}
