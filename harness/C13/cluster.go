package cluster

import (
	"errors"

	"github.com/golang/snappy"

	"github.com/emitter-io/emitter/internal/event"
	"github.com/emitter-io/emitter/internal/message"
	"github.com/emitter-io/emitter/internal/verifrt"
)

// what the next DecodeState answers under the executor: a (possibly partial) state and an error
var c13decodeErr error

func c13DecodeState(buf []byte) (*event.State, error) { return c05incoming, c13decodeErr }

// VerifC13MergeError: a gossip payload that only partly decodes. DecodeState hands back what
// it managed to read together with the error; the gossip library drops whatever merge returns
// when merge reports an error. So either the payload is refused as a whole (state untouched,
// nothing routed), or what was applied is also passed on - an update must never change this
// broker's state and yet be withheld from onward relay.
func VerifC13MergeError(v *verifrt.T) {
	a := c05new(1)
	ssid := message.Ssid{7, 11}
	sub := &event.Subscription{Peer: 2, Conn: 5, Ssid: ssid, Channel: []byte("a/")}
	good := event.NewState("")
	good.Add(sub)
	broken := v.Bool("later-subset-is-malformed")
	var buf []byte
	if v.Symbolic() {
		c05incoming = good.VerifClone()
		c13decodeErr = nil
		if broken {
			c13decodeErr = errors.New("unexpected EOF")
		}
		buf = []byte{1}
	} else {
		buf = good.Encode()[0]
		if broken {
			// cut the tail off until the payload still decodes the subscriptions but fails later
			found := false
			for try := 0; try < 200 && !found; try++ {
				raw, _ := snappy.Decode(nil, good.Encode()[0])
				cand := snappy.Encode(nil, raw[:len(raw)-1])
				if st, err := event.DecodeState(cand); err != nil && st != nil && st.Has(sub) {
					buf, found = cand, true
				}
			}
			if !found {
				v.Assume(false)
			}
		}
	}
	delta, err := a.swarm.merge(buf)
	v.Reach("merged-partial")
	applied := a.swarm.state.Has(sub)
	if err != nil {
		// the library drops the delta: nothing may have been applied
		v.Assert(!applied && a.routes(ssid, 2) == 0, "C13.merge.payload-with-an-error-changes-nothing")
	} else {
		v.Assert(applied && delta != nil, "C13.merge.applied-update-is-passed-on")
	}
	v.Assert((err != nil) == broken, "C13.merge.error-reported-iff-malformed")
}
