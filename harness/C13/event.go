package event

import (
	"github.com/weaveworks/mesh"

	"github.com/emitter-io/emitter/internal/event/crdt"
	"github.com/emitter-io/emitter/internal/verifrt"
)

var c13clock int64

func c13useClock() { crdt.Now = func() int64 { return c13clock } }

type c13upd struct {
	typ      uint8 // subset
	key      int   // 0..1
	add, del int64 // 0 = no such operation
}

var c13keys = []string{"key-A", "key-B"}

func c13drawUpd(v *verifrt.T, name string, i int) c13upd {
	u := c13upd{typ: uint8(v.Choice(2, name+"t", i)), key: v.Choice(2, name+"k", i), add: v.I64(name+"a", i), del: v.I64(name+"d", i)}
	v.Assume(u.add >= 0 && u.del >= 0)
	return u
}

// c13apply performs the update on a map through its public API with the
// clock pinned to the update's times.
func c13apply(m crdt.Map, u c13upd) {
	if u.add != 0 {
		c13clock = u.add
		m.Add(c13keys[u.key], nil)
	}
	if u.del != 0 {
		c13clock = u.del
		m.Del(c13keys[u.key])
	}
}

func c13state(us []c13upd) *State {
	s := NewState("")
	for _, u := range us {
		c13apply(s.subsets[u.typ], u)
	}
	return s
}

type c13times struct{ add, del int64 }

func c13get(s *State, typ uint8, key int) c13times {
	t := s.subsets[typ].Get(c13keys[key])
	return c13times{t.AddTime(), t.DelTime()}
}

func c13maxI(a, b int64) int64 {
	return int64(verifrt.IteU64(a > b, uint64(a), uint64(b)))
}

// expected point-wise maximum of a list of updates for (typ,key)
func c13expect(us []c13upd, typ uint8, key int) c13times {
	var e c13times
	for _, u := range us {
		if u.typ == typ && u.key == key {
			e.add = c13maxI(e.add, u.add)
			e.del = c13maxI(e.del, u.del)
		}
	}
	return e
}

// VerifC13State: State.Merge returns nil exactly when nothing changed, otherwise
// the argument reduced to exactly the changed times.
func VerifC13State(v *verifrt.T) {
	c13useClock()
	nl, nr := v.Bound("local_updates"), v.Bound("remote_updates")
	var lu, ru []c13upd
	for i := 0; i < nl; i++ {
		lu = append(lu, c13drawUpd(v, "l", i))
	}
	for i := 0; i < nr; i++ {
		ru = append(ru, c13drawUpd(v, "r", i))
	}
	local, remote := c13state(lu), c13state(ru)
	if v.Bool("foreign-subset") {
		// a decoded payload may carry a subset of a kind this broker does not keep (DecodeState
		// copies whatever kinds the bytes name); it cannot change our state
		f := crdt.NewVolatile()
		c13clock = 5
		f.Add("x", nil)
		remote.subsets[9] = f
	}
	ret := local.Merge(remote)
	v.Reach("state-merged")
	changed := false
	for typ := uint8(0); typ < 2; typ++ {
		for k := 0; k < 2; k++ {
			l, r := c13expect(lu, typ, k), c13expect(ru, typ, k)
			got := c13get(local, typ, k)
			v.Assert(got.add == c13maxI(l.add, r.add) && got.del == c13maxI(l.del, r.del), "C13.state.local-is-max")
			wantA := int64(verifrt.IteU64(r.add > l.add, uint64(r.add), 0))
			wantD := int64(verifrt.IteU64(r.del > l.del, uint64(r.del), 0))
			d := c13get(remote, typ, k)
			v.Assert(d.add == wantA && d.del == wantD, "C13.state.delta-exact")
			changed = verifrt.Or(changed, verifrt.Or(wantA != 0, wantD != 0))
		}
	}
	v.Assert((ret == nil) == !changed, "C13.state.nil-iff-nothing-changed")
	if ret != nil {
		v.Assert(ret.(*State) == remote, "C13.state.returns-the-delta-object")
	}
	v.Observe("nil", uint64(verifrt.B2U(ret == nil)))
}

// ---- queued payloads: mesh.gossipSender.Send / Broadcast / pick, transcribed ----
// (weaveworks/mesh gossip.go: pending = pending.Merge(new); the real sender type
// is unexported and cannot be constructed from emitter packages).

type c13sender struct {
	gossip     mesh.GossipData
	broadcasts map[mesh.PeerName]mesh.GossipData
}

func (s *c13sender) Send(data mesh.GossipData) {
	if s.gossip == nil {
		s.gossip = data
	} else {
		s.gossip = s.gossip.Merge(data)
	}
}

func (s *c13sender) Broadcast(src mesh.PeerName, data mesh.GossipData) {
	d, found := s.broadcasts[src]
	if !found {
		s.broadcasts[src] = data
	} else {
		s.broadcasts[src] = d.Merge(data)
	}
}

// VerifC13Queue: n one-update payloads (as Swarm.Notify builds them) are queued
// on one link before a send happens; the payload finally handed to Encode must
// carry every queued update. With two links the same objects are queued on both.
func VerifC13Queue(v *verifrt.T) {
	c13useClock()
	n := 1 + v.Choice(v.Bound("queued"), "n")
	links := 1 + v.Choice(v.Bound("links"), "links")
	broadcast := v.Bool("broadcast")
	var us []c13upd
	var payloads []*State
	for i := 0; i < n; i++ {
		u := c13drawUpd(v, "q", i)
		// Notify sends exactly one operation per payload
		v.Assume((u.add != 0) != (u.del != 0))
		us = append(us, u)
		payloads = append(payloads, c13state([]c13upd{u}))
	}
	senders := make([]*c13sender, links)
	for l := range senders {
		senders[l] = &c13sender{broadcasts: map[mesh.PeerName]mesh.GossipData{}}
	}
	for _, p := range payloads {
		for _, s := range senders {
			if broadcast {
				s.Broadcast(1, p)
			} else {
				s.Send(p)
			}
		}
	}
	v.Reach("queued")
	for l, s := range senders {
		var out mesh.GossipData
		if broadcast {
			out = s.broadcasts[1]
		} else {
			out = s.gossip
		}
		for typ := uint8(0); typ < 2; typ++ {
			for k := 0; k < 2; k++ {
				want := c13expect(us, typ, k)
				var got c13times
				if out != nil {
					got = c13get(out.(*State), typ, k)
				}
				// whatever is sent was queued: no time is invented
				v.Assert(got.add <= want.add && got.del <= want.del, "C13.queue.nothing-invented")
				if n == 1 {
					v.Assert(got == want, "C13.queue.single-payload-unchanged")
				} else if l == 0 {
					v.Assert(got.add >= want.add && got.del >= want.del, "C13.queue.nothing-lost")
				} else {
					v.Assert(got.add >= want.add && got.del >= want.del, "C13.queue.nothing-lost-second-link")
				}
			}
		}
	}
}
