package crdt

import (
	"github.com/emitter-io/emitter/internal/verifrt"
)

var c13keys = []string{"k1", "k2", "k3"}

type c13ent struct {
	present  bool
	add, del int64
}

func c13draw(v *verifrt.T, side string, n int) []c13ent {
	out := make([]c13ent, n)
	for i := range out {
		out[i].present = v.Bool(side+"p", i)
		out[i].add = v.I64(side+"a", i)
		out[i].del = v.I64(side+"d", i)
		v.Assume(out[i].add >= 0 && out[i].del >= 0)
		// an entry with both times zero does not exist in a real set (Add/Del/Merge never store it)
		v.Assume(!out[i].present || out[i].add != 0 || out[i].del != 0)
	}
	return out
}

func c13val(e c13ent, payload byte) Value {
	t := newValue()
	t.setAddTime(e.add)
	t.setDelTime(e.del)
	t.setValue([]byte{payload})
	return t
}

func c13volatile(es []c13ent, payload byte) *Volatile {
	m := make(map[string]Value)
	for i, e := range es {
		if e.present {
			m[c13keys[i]] = c13val(e, payload)
		}
	}
	return newVolatileWith(m)
}

func c13max(a, b int64) int64 {
	return int64(verifrt.IteU64(a > b, uint64(a), uint64(b)))
}

// c13check asserts delta exactness after local.Merge(remote) for one key.
func c13check(v *verifrt.T, get func(string) (Value, bool), remote *Volatile, l, r c13ent, key string) {
	la, ld := l.add, l.del
	if !l.present {
		la, ld = 0, 0
	}
	lv, lok := get(key)
	rv, rok := remote.data[key]
	if !r.present {
		// nothing incoming for this key: local untouched, nothing in the delta
		v.Assert(!rok, "C13.delta.absent-stays-absent")
		v.Assert(lok == l.present, "C13.local.untouched-presence")
		if lok {
			v.Assert(lv.AddTime() == la && lv.DelTime() == ld, "C13.local.untouched-times")
		}
		return
	}
	wantA := int64(verifrt.IteU64(r.add > la, uint64(r.add), 0))
	wantD := int64(verifrt.IteU64(r.del > ld, uint64(r.del), 0))
	// the delta carries exactly the times that changed the local state
	v.Assert(rok == (wantA != 0 || wantD != 0), "C13.delta.key-present-iff-something-new")
	if rok {
		v.Assert(rv.AddTime() == wantA, "C13.delta.add-time")
		v.Assert(rv.DelTime() == wantD, "C13.delta.del-time")
	}
	// the local state is the point-wise maximum
	if l.present || wantA != 0 || wantD != 0 {
		v.Assert(lok, "C13.local.present")
		if lok {
			v.Assert(lv.AddTime() == c13max(la, r.add), "C13.local.add-max")
			v.Assert(lv.DelTime() == c13max(ld, r.del), "C13.local.del-max")
		}
	} else {
		v.Assert(!lok, "C13.local.not-created-by-empty-delta")
	}
}


// c13stillMax: after the delta has been merged back (which trims it to nothing), the state is
// still the point-wise maximum - the delta the broker hands on must not be the state's memory.
func c13stillMax(v *verifrt.T, get func(string) (Value, bool), ls, rs []c13ent) {
	for i := range ls {
		la, ld, ra, rd := ls[i].add, ls[i].del, rs[i].add, rs[i].del
		if !ls[i].present {
			la, ld = 0, 0
		}
		if !rs[i].present {
			ra, rd = 0, 0
		}
		x, ok := get(c13keys[i])
		if ls[i].present || ra > 0 || rd > 0 {
			v.Assert(ok && x.AddTime() == c13max(la, ra) && x.DelTime() == c13max(ld, rd), "C13.local.unchanged-by-what-happens-to-the-delta")
		}
	}
}

// VerifC13Volatile: every relative order of add/remove times per key (ties,
// zeros, missing keys), nkeys keys per set.
func VerifC13Volatile(v *verifrt.T) {
	n := v.Bound("keys")
	ls, rs := c13draw(v, "l", n), c13draw(v, "r", n)
	local, remote := c13volatile(ls, 1), c13volatile(rs, 2)
	local.Merge(remote)
	v.Reach("merged")
	for i := 0; i < n; i++ {
		c13check(v, func(k string) (Value, bool) { x, ok := local.data[k]; return x, ok }, remote, ls[i], rs[i], c13keys[i])
	}
	// re-merging the delta into the merged state changes nothing and leaves an empty delta
	local.Merge(remote)
	v.Assert(remote.Count() == 0, "C13.delta.idempotent-empty")
	c13stillMax(v, func(k string) (Value, bool) { x, ok := local.data[k]; return x, ok }, ls, rs)
	v.Observe("cnt", uint64(local.Count()))
}

// VerifC13Durable: the same for the durable backend (storage engines stubbed).
func VerifC13Durable(v *verifrt.T) {
	n := v.Bound("keys")
	ls, rs := c13draw(v, "l", n), c13draw(v, "r", n)
	m := make(map[string]Value)
	for i, e := range ls {
		if e.present {
			m[c13keys[i]] = c13val(e, 1)
		}
	}
	local := newDurableWith("", m)
	remote := c13volatile(rs, 2)
	local.Merge(remote)
	v.Reach("merged")
	state := local.toMap()
	for i := 0; i < n; i++ {
		c13check(v, func(k string) (Value, bool) { x, ok := state[k]; return x, ok }, remote, ls[i], rs[i], c13keys[i])
	}
	local.Merge(remote)
	v.Assert(remote.Count() == 0, "C13.delta.idempotent-empty")
	state = local.toMap()
	c13stillMax(v, func(k string) (Value, bool) { x, ok := state[k]; return x, ok }, ls, rs)
	v.Observe("cnt", uint64(local.Count()))
}
