package cluster

import (
	"context"
	"time"

	"github.com/weaveworks/mesh"

	"github.com/emitter-io/emitter/internal/event"
	"github.com/emitter-io/emitter/internal/event/crdt"
	"github.com/emitter-io/emitter/internal/message"
	"github.com/emitter-io/emitter/internal/provider/contract"
	"github.com/emitter-io/emitter/internal/provider/storage"
	"github.com/emitter-io/emitter/internal/security"
	"github.com/emitter-io/emitter/internal/service/pubsub"
	"github.com/emitter-io/emitter/internal/verifrt"
)

// ---- environment ----

type c05gossip struct{ sent []*event.State }

func (g *c05gossip) GossipUnicast(dst mesh.PeerName, msg []byte) error { return nil }
func (g *c05gossip) GossipBroadcast(update mesh.GossipData)           { g.sent = append(g.sent, update.(*event.State)) }
func (g *c05gossip) GossipNeighbourSubset(update mesh.GossipData)     {}

type c05notifier struct{}

func (c05notifier) NotifySubscribe(message.Subscriber, *event.Subscription)   {}
func (c05notifier) NotifyUnsubscribe(message.Subscriber, *event.Subscription) {}

type c05auth struct{}

func (c05auth) Authorize(*security.Channel, uint8) (contract.Contract, security.Key, bool) {
	return nil, nil, false
}

// the payload the next Swarm.merge decodes (event.DecodeState is snappy + reflection)
var c05incoming *event.State

func c05DecodeState(buf []byte) (*event.State, error) { return c05incoming, nil }

func c05Repeat(ctx context.Context, interval time.Duration, action func()) context.CancelFunc {
	return func() {}
}

func c05Marshal(v interface{}) ([]byte, error) { return []byte{}, nil }

type c05broker struct {
	swarm  *Swarm
	trie   *message.Trie
	ps     *pubsub.Service
	gossip *c05gossip
}

func c05new(name mesh.PeerName) *c05broker {
	b := &c05broker{trie: message.NewTrie(), gossip: &c05gossip{}}
	b.ps = pubsub.New(c05auth{}, storage.NewNoop(), c05notifier{}, b.trie)
	router := new(mesh.Router)
	verifrt.SetUnexported(router, "Ourself.Peer.Name", name)
	s := &Swarm{name: name, state: event.NewState(""), router: router, gossip: b.gossip}
	s.members = newMemberlist(s.newPeer)
	s.OnSubscribe = b.ps.Subscribe
	s.OnUnsubscribe = b.ps.Unsubscribe
	b.swarm = s
	return b
}

func (b *c05broker) deliver(v *verifrt.T, p *event.State) {
	if v.Symbolic() {
		c05incoming = p
		b.swarm.merge([]byte{1, 2})
	} else {
		b.swarm.merge(p.Encode()[0])
	}
}

// full is what the gossip library gets when it asks the broker for its complete state (the
// periodic exchange and every newly established link call Swarm.Gossip); nil = nothing to send
func (b *c05broker) full() *event.State {
	g := b.swarm.Gossip()
	if g == nil {
		return nil
	}
	st, ok := g.(*event.State)
	if !ok || st == nil {
		return nil
	}
	return st.VerifClone()
}

// does broker b forward messages for ssid to peer `name`
func (b *c05broker) routes(ssid message.Ssid, name mesh.PeerName) int {
	n := 0
	for _, s := range b.trie.Lookup(ssid, nil) {
		if p, ok := s.(*Peer); ok && p.name == name {
			n++
		}
	}
	return n
}

var c05clock int64

func c05max(a, b int64) int64 { return int64(verifrt.IteU64(a > b, uint64(a), uint64(b))) }

// VerifC05Step: broker A (peer 1) receives consecutive gossip payloads about
// subscriptions of peer 2 on one ssid: each payload carries up to two keys (two
// connections of peer 2) with arbitrary add / remove times - out-of-order, duplicated,
// coalesced and full-state payloads are all of this shape. After every payload, A
// forwards to peer 2 for that ssid if and only if some key is active in A's replicated
// state (and forwards once).
func VerifC05Step(v *verifrt.T) {
	crdt.Now = func() int64 { return c05clock }
	a := c05new(1)
	ssid := message.Ssid{7, 11, 12}
	evs := []*event.Subscription{
		{Peer: 2, Conn: 1, Ssid: ssid, Channel: []byte("a/b/")},
		{Peer: 2, Conn: 2, Ssid: ssid, Channel: []byte("a/b/")},
	}
	var add, del [2]int64 // what A should hold per key: point-wise maxima
	n := v.Bound("payloads")
	for i := 0; i < n; i++ {
		p := event.NewState("")
		any := false
		for k := 0; k < v.Bound("keys"); k++ {
			if !v.Bool("has", i, k) {
				continue
			}
			pa, pd := v.I64("a", i, k), v.I64("d", i, k)
			v.Assume(pa >= 0 && pd >= 0 && (pa != 0 || pd != 0))
			if pa != 0 {
				c05clock = pa
				p.Add(evs[k])
			}
			if pd != 0 {
				c05clock = pd
				p.Del(evs[k])
			}
			add[k], del[k] = c05max(add[k], pa), c05max(del[k], pd)
			any = true
		}
		if !any {
			continue
		}
		a.deliver(v, p)
		// the replicated state is the point-wise maximum (C04/C13)
		active := false
		for k := 0; k < v.Bound("keys"); k++ {
			ga, gd := a.swarm.state.VerifTimes(evs[k])
			v.Assert(ga == add[k] && gd == del[k], "C05.step.state-is-max")
			active = verifrt.Or(active, verifrt.And(add[k] != 0, add[k] >= del[k]))
		}
		r := a.routes(ssid, 2)
		if r > 0 {
			v.Assert(r == 1, "C05.step.forwards-once")
			v.Assert(active, "C05.step.stops-forwarding-when-no-live-subscription")
		} else {
			v.Assert(verifrt.Not(active), "C05.step.forwards-while-a-subscription-is-live")
		}
	}
	v.Reach("payloads-merged")
	v.Observe("routes", uint64(a.routes(ssid, 2)))
}

// VerifC05Pair: two brokers. Clients subscribe / unsubscribe on B; B's broadcasts reach A
// in any order, duplicated or never; A may garbage-collect B (link down) and later hear
// from it again; periodic full-state exchanges happen at any step. At quiescence (two
// full-state exchanges each way) A forwards to B exactly when B has a live subscriber.
func VerifC05Pair(v *verifrt.T) {
	c05clock = 1000
	crdt.Now = func() int64 { return c05clock }
	a, b := c05new(1), c05new(2)
	ssid := message.Ssid{7, 11, 12}
	local := &c05notifier{}
	_ = local
	conns := []*event.Subscription{
		{Peer: 2, Conn: 1, Ssid: ssid, Channel: []byte("a/b/")},
		{Peer: 2, Conn: 2, Ssid: ssid, Channel: []byte("a/b/")},
	}
	live := [2]bool{}
	next := 0 // next undelivered broadcast of B
	n := v.Bound("steps")
	for i := 0; i < n; i++ {
		c05clock += 1 + int64(v.U8("dt", i))
		switch v.Choice(7, "step", i) {
		case 0: // a client of B subscribes
			k := v.Choice(2, "conn", i)
			if !live[k] {
				live[k] = true
				b.swarm.Notify(conns[k], true)
			}
		case 1: // a client of B unsubscribes
			k := v.Choice(2, "conn", i)
			if live[k] {
				live[k] = false
				b.swarm.Notify(conns[k], false)
			}
		case 2: // the oldest undelivered broadcast reaches A
			if next < len(b.gossip.sent) {
				a.deliver(v, b.gossip.sent[next].VerifClone())
				next++
			}
		case 3: // ... is lost
			if next < len(b.gossip.sent) {
				next++
			}
		case 4: // A loses B (garbage collection of the peer) and tells the cluster
			a.swarm.onPeerOffline(2)
		case 5: // periodic full-state gossip B -> A
			if f := b.full(); f != nil {
				a.deliver(v, f)
			}
		case 6: // B's periodic gossip goes to another neighbour this time (or is lost on the way to A)
			_ = b.full()
		}
	}
	// quiescence: full state both ways, twice
	for r := 0; r < 2; r++ {
		if f := b.full(); f != nil {
			a.deliver(v, f)
		}
		if f := a.full(); f != nil {
			b.deliver(v, f)
		}
	}
	v.Reach("quiescent")
	want := live[0] || live[1]
	got := a.routes(ssid, 2)
	if want {
		v.Assert(got == 1, "C05.pair.forwards-to-broker-with-live-subscriber")
	} else {
		v.Assert(got == 0, "C05.pair.stops-forwarding-without-subscriber")
	}
	// B's own replicated entries still say what its clients do
	for k := range conns {
		v.Assert(b.swarm.state.Has(conns[k]) == live[k], "C05.pair.own-state-follows-own-clients")
	}
	v.Observe("routes", uint64(got))
}

// deliverRelay merges a payload and returns what Swarm.merge hands back to the gossip
// library for onward relay (nil when nothing was new).
func (b *c05broker) deliverRelay(v *verifrt.T, p *event.State) *event.State {
	var d mesh.GossipData
	if v.Symbolic() {
		c05incoming = p
		d, _ = b.swarm.merge([]byte{1, 2})
	} else {
		d, _ = b.swarm.merge(p.Encode()[0])
	}
	if d == nil {
		return nil
	}
	if st, ok := d.(*event.State); ok && st != nil {
		return st
	}
	return nil
}

// VerifC05Relay: three brokers in a line, B - A - C. Clients subscribe / unsubscribe on B;
// B's broadcasts reach A in order or are lost; whatever A's merge returns as new is relayed
// to C (that is all C ever hears about B, apart from A's periodic full state). At quiescence
// C forwards to B exactly when B has a live subscriber - so the delta A passes on must carry
// everything that was new to A, and re-gossiping must not be needed for it.
func VerifC05Relay(v *verifrt.T) {
	c05clock = 1000
	crdt.Now = func() int64 { return c05clock }
	a, b, c := c05new(1), c05new(2), c05new(3)
	ssid := message.Ssid{7, 11, 12}
	conns := []*event.Subscription{
		{Peer: 2, Conn: 1, Ssid: ssid, Channel: []byte("a/b/")},
		{Peer: 2, Conn: 2, Ssid: ssid, Channel: []byte("a/b/")},
	}
	live := [2]bool{}
	next := 0
	relay := func(p *event.State) {
		if d := a.deliverRelay(v, p); d != nil {
			c.deliver(v, d.VerifClone())
		}
	}
	n := v.Bound("rsteps")
	for i := 0; i < n; i++ {
		c05clock += 1 + int64(v.U8("dt", i))
		switch v.Choice(5, "step", i) {
		case 0:
			k := v.Choice(2, "conn", i)
			if !live[k] {
				live[k] = true
				b.swarm.Notify(conns[k], true)
			}
		case 1:
			k := v.Choice(2, "conn", i)
			if live[k] {
				live[k] = false
				b.swarm.Notify(conns[k], false)
			}
		case 2: // the oldest undelivered broadcast reaches A, which relays what was new
			if next < len(b.gossip.sent) {
				relay(b.gossip.sent[next].VerifClone())
				next++
			}
		case 3: // ... is lost
			if next < len(b.gossip.sent) {
				next++
			}
		case 4: // periodic full state B -> A, relayed likewise
			if f := b.full(); f != nil {
				relay(f)
			}
		}
	}
	// quiescence: B's full state reaches A (relayed), then A's full state reaches C
	if f := b.full(); f != nil {
		relay(f)
	}
	want := live[0] || live[1]
	// C has heard nothing but A's relayed deltas so far: they alone carry everything
	if want {
		v.Assert(c.routes(ssid, 2) == 1, "C05.relay.deltas-alone-establish-the-route")
	} else {
		v.Assert(c.routes(ssid, 2) == 0, "C05.relay.deltas-alone-remove-the-route")
	}
	if f := a.full(); f != nil {
		c.deliver(v, f)
	}
	v.Reach("relay-quiescent")
	for _, x := range []*c05broker{a, c} {
		got := x.routes(ssid, 2)
		if want {
			v.Assert(got == 1, "C05.relay.forwards-to-broker-with-live-subscriber")
		} else {
			v.Assert(got == 0, "C05.relay.stops-forwarding-without-subscriber")
		}
	}
	v.Observe("routes", uint64(c.routes(ssid, 2)))
}
