package crdt

// VerifClone deep-copies a volatile set (stand-in for an encode/decode hop).
func (s *Volatile) VerifClone() *Volatile {
	m := make(map[string]Value, len(s.data))
	for k, v := range s.data {
		m[k] = append(Value(nil), v...)
	}
	return newVolatileWith(m)
}
