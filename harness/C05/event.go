package event

import "github.com/emitter-io/emitter/internal/event/crdt"

// VerifClone deep-copies a volatile state (stand-in for Encode -> DecodeState).
func (st *State) VerifClone() *State {
	out := &State{subsets: map[uint8]crdt.Map{}}
	for k, v := range st.subsets {
		out.subsets[k] = v.(*crdt.Volatile).VerifClone()
	}
	return out
}

// VerifTimes returns the add / remove time of a subscription key.
func (st *State) VerifTimes(ev *Subscription) (int64, int64) {
	t := st.subsets[typeSub].Get(ev.Key())
	return t.AddTime(), t.DelTime()
}
