package broker

// Shared harness environment for properties decided at the broker level:
// recording sockets, no-op notifier, a stub license cipher, real Conn values
// built by struct literal (no TCP listener, no goroutines).

import (
	"sync/atomic"
	"errors"
	"io"
	"net"
	"regexp"
	"time"

	"github.com/emitter-io/stats"
	"github.com/kelindar/rate"

	"github.com/emitter-io/emitter/internal/event"
	"github.com/emitter-io/emitter/internal/message"
	"github.com/emitter-io/emitter/internal/security"
	"github.com/emitter-io/emitter/internal/service/keygen"
	"github.com/emitter-io/emitter/internal/service/link"
)

type hsock struct {
	writes [][]byte
	closed bool
	in     []byte // what the client sends; EOF afterwards
	gate   chan struct{} // native replays only: writes wait until it is closed (a stalled client)
	fail      bool          // every write fails (a half-dead connection that is still indexed)
	slowFirst time.Duration // native replays only: the first write takes this long (a slow client)
	nwrites   int32
}

func (s *hsock) Read(b []byte) (int, error) {
	if len(s.in) == 0 {
		return 0, io.EOF
	}
	n := copy(b, s.in)
	s.in = s.in[n:]
	return n, nil
}
func (s *hsock) Write(b []byte) (int, error) {
	if s.fail {
		return 0, io.ErrClosedPipe
	}
	if s.gate != nil {
		<-s.gate
	}
	if s.slowFirst > 0 && atomic.AddInt32(&s.nwrites, 1) == 1 {
		time.Sleep(s.slowFirst)
	}
	s.writes = append(s.writes, append([]byte(nil), b...))
	return len(b), nil
}
func (s *hsock) Close() error                       { s.closed = true; return nil }
func (s *hsock) LocalAddr() net.Addr                { return nil }
func (s *hsock) RemoteAddr() net.Addr               { return nil }
func (s *hsock) SetDeadline(t time.Time) error      { return nil }
func (s *hsock) SetReadDeadline(t time.Time) error  { return nil }
func (s *hsock) SetWriteDeadline(t time.Time) error { return nil }

type hnotifier struct {
	subs, unsubs []*event.Subscription
}

func (n *hnotifier) NotifySubscribe(_ message.Subscriber, ev *event.Subscription) {
	n.subs = append(n.subs, ev)
}
func (n *hnotifier) NotifyUnsubscribe(_ message.Subscriber, ev *event.Subscription) {
	n.unsubs = append(n.unsubs, ev)
}

// hcipher: the key strings "K0".."K9" decrypt to the registered key bytes;
// EncryptKey registers the key and returns its name. Cipher round trips are C20's subject.
type hcipher struct {
	keys   []security.Key
	minted []security.Key
}

func (c *hcipher) DecryptKey(b []byte) (security.Key, error) {
	if len(b) == 2 && b[0] == 'K' && b[1] >= '0' && int(b[1]-'0') < len(c.keys) {
		return append(security.Key(nil), c.keys[b[1]-'0']...), nil
	}
	return nil, errors.New("cipher: the key provided is not valid")
}

func (c *hcipher) EncryptKey(k security.Key) (string, error) {
	cp := append(security.Key(nil), k...)
	c.minted = append(c.minted, cp)
	c.keys = append(c.keys, cp)
	return "K" + string(rune('0'+len(c.keys)-1)), nil
}

func (c *hcipher) add(k security.Key) string {
	c.keys = append(c.keys, k)
	return "K" + string(rune('0'+len(c.keys)-1))
}

func hconn(svc *Service, i int) (*Conn, *hsock) {
	sock := &hsock{}
	return &Conn{
		tracked:  1, // usage tracking (device address sketch) is not the subject of any harness
		socket:   sock,
		luid:     security.ID(i + 1),
		guid:     "conn" + string(rune('a'+i)),
		service:  svc,
		subs:     message.NewCounters(),
		measurer: stats.NewNoop(),
		links:    map[string]string{},
	}, sock
}

// ---- JSON and regexp stand-ins (symbolic executor only; natively the real ones run) ----

var (
	hKeygenReq keygen.Request
	hLinkReq   link.Request
)

func hUnmarshal(data []byte, v interface{}) error {
	switch p := v.(type) {
	case *keygen.Request:
		*p = hKeygenReq
	case *link.Request:
		*p = hLinkReq
	default:
		return errors.New("stub: unexpected json target")
	}
	return nil
}

func hMustCompile(expr string) *regexp.Regexp { return new(regexp.Regexp) }

// the only pattern in reach is ^[a-zA-Z0-9]{1,2}$ (link names)
func hRegexpMatch(re *regexp.Regexp, b []byte) bool {
	if len(b) < 1 || len(b) > 2 {
		return false
	}
	for _, c := range b {
		if !((c >= 'a' && c <= 'z') || (c >= 'A' && c <= 'Z') || (c >= '0' && c <= '9')) {
			return false
		}
	}
	return true
}

// hMarshal stands in for encoding/json.Marshal under the symbolic executor (response bodies
// are not the subject of any harness); natively the real one runs.
func hMarshal(v interface{}) ([]byte, error) { return []byte("{}"), nil }

// hLimit: the read rate limiter answers as scripted (one answer per call), then never throttles.
var hLimitScript []bool

func hLimit(l *rate.Limiter) bool {
	if len(hLimitScript) == 0 {
		return false
	}
	r := hLimitScript[0]
	hLimitScript = hLimitScript[1:]
	return r
}

// hBinaryMarshal stands in for kelindar/binary.Marshal (reflection) where only a survey
// request body is built and the surveyor stub ignores it.
func hBinaryMarshal(v interface{}) ([]byte, error) { return []byte{}, nil }
