package crdt

// Stubs for the storage engines behind crdt.Durable, substituted by name under
// the symbolic executor only (spec.json "subst"); natively the real buntdb
// (":memory:") and freecache run. The model: buntdb = a string map with
// callbacks run inline (strings are kept by reference, so in-place mutation of
// stored values through binary.ToBytes aliases exactly as in the real B-tree);
// freecache = copy-in/copy-out map without eviction or expiry inside a history.

import (
	"bytes"
	"errors"
	"reflect"

	"github.com/kelindar/binary"

	"github.com/coocood/freecache"
	"github.com/tidwall/buntdb"
)

type stubDB struct {
	keys []string
	vals map[string]string
	file *stubFile // what has reached the database file (nil for :memory:)
	exp  map[string]bool // keys whose latest Set carried an expiry (buntdb purges those later)
}

// stubFile is the persisted image of one database path: every Set appends a copy of the
// value (as buntdb appends the command to its file), so a later in-place mutation of the
// in-memory value is NOT in the file; reopening the path loads copies of the image.
type stubFile struct {
	keys []string
	vals map[string]string
}

var (
	stubDBs    = map[*buntdb.DB]*stubDB{}
	stubTxs    = map[*buntdb.Tx]*stubDB{}
	stubCaches = map[*freecache.Cache]map[string][]byte{}
	stubFiles  = map[string]*stubFile{}
	errStubNotFound = errors.New("not found")
)

func stubOpen(path string) (*buntdb.DB, error) {
	db := new(buntdb.DB)
	d := &stubDB{vals: map[string]string{}}
	if path != ":memory:" && path != "" {
		f := stubFiles[path]
		if f == nil {
			f = &stubFile{vals: map[string]string{}}
			stubFiles[path] = f
		}
		for _, k := range f.keys {
			d.keys = append(d.keys, k)
			d.vals[k] = string(append([]byte(nil), f.vals[k]...))
		}
		d.file = f
	}
	stubDBs[db] = d
	return db, nil
}

func stubTx(db *buntdb.DB) *buntdb.Tx {
	tx := new(buntdb.Tx)
	stubTxs[tx] = stubDBs[db]
	return tx
}

func stubUpdate(db *buntdb.DB, fn func(tx *buntdb.Tx) error) error {
	tx := stubTx(db)
	err := fn(tx)
	delete(stubTxs, tx)
	return err
}

func stubView(db *buntdb.DB, fn func(tx *buntdb.Tx) error) error { return stubUpdate(db, fn) }

func stubBegin(db *buntdb.DB, writable bool) (*buntdb.Tx, error) { return stubTx(db), nil }

func stubRollback(tx *buntdb.Tx) error {
	delete(stubTxs, tx)
	return nil
}

func stubClose(db *buntdb.DB) error { return nil }

func stubGet(tx *buntdb.Tx, key string, ignoreExpired ...bool) (string, error) {
	d := stubTxs[tx]
	if v, ok := d.vals[key]; ok {
		return v, nil
	}
	return "", errStubNotFound
}

func stubSet(tx *buntdb.Tx, key, value string, opts *buntdb.SetOptions) (string, bool, error) {
	d := stubTxs[tx]
	prev, ok := d.vals[key]
	if !ok {
		d.keys = append(d.keys, key)
	}
	d.vals[key] = value
	if d.exp == nil {
		d.exp = map[string]bool{}
	}
	d.exp[key] = opts != nil && opts.Expires
	if d.file != nil {
		if _, had := d.file.vals[key]; !had {
			d.file.keys = append(d.file.keys, key)
		}
		d.file.vals[key] = string(append([]byte(nil), value...))
	}
	return prev, ok, nil
}

func stubAscend(tx *buntdb.Tx, index string, iterator func(key, value string) bool) error {
	d := stubTxs[tx]
	// ascending key order (insertion sort over the small key list)
	ks := append([]string(nil), d.keys...)
	for i := 1; i < len(ks); i++ {
		for j := i; j > 0 && ks[j] < ks[j-1]; j-- {
			ks[j], ks[j-1] = ks[j-1], ks[j]
		}
	}
	for _, k := range ks {
		if !iterator(k, d.vals[k]) {
			break
		}
	}
	return nil
}

func stubNewCache(size int) *freecache.Cache {
	c := new(freecache.Cache)
	stubCaches[c] = map[string][]byte{}
	return c
}

func stubCacheGet(c *freecache.Cache, key []byte) ([]byte, error) {
	if v, ok := stubCaches[c][string(key)]; ok {
		return append([]byte(nil), v...), nil
	}
	return nil, errStubNotFound
}

func stubCacheSet(c *freecache.Cache, key, value []byte, expireSeconds int) error {
	stubCaches[c][string(key)] = append([]byte(nil), value...)
	return nil
}

func stubCacheDel(c *freecache.Cache, key []byte) bool {
	_, ok := stubCaches[c][string(key)]
	delete(stubCaches[c], string(key))
	return ok
}

// VerifExpires reports whether the stored entry for key carries an expiry, i.e. whether
// buntdb will purge it by itself (harness-only accessor). Under the executor it reads what
// the stand-in recorded for the latest Set; natively it asks the real database for the TTL.
func (s *Durable) VerifExpires(key string, symbolic bool) bool {
	if symbolic {
		return stubDBs[s.db].exp[key]
	}
	expires := false
	s.db.View(func(tx *buntdb.Tx) error {
		if ttl, err := tx.TTL(key); err == nil && ttl >= 0 {
			expires = true
		}
		return nil
	})
	return expires
}

// VerifCodecHop sends a set through the real set codecs, as one gossip hop does: the
// sender's codec (volatile or durable) writes it, the volatile codec reads it back.
func VerifCodecHop(m Map) (*Volatile, error) {
	var buf bytes.Buffer
	e := binary.NewEncoder(&buf)
	var err error
	switch s := m.(type) {
	case *Volatile:
		err = new(codecVolatile).EncodeTo(e, reflect.ValueOf(*s))
	case *Durable:
		err = new(durableCodec).EncodeTo(e, reflect.ValueOf(*s))
	}
	if err != nil {
		return nil, err
	}
	out := new(Volatile)
	d := binary.NewDecoder(bytes.NewBuffer(buf.Bytes()))
	if err = new(codecVolatile).DecodeTo(d, reflect.ValueOf(out).Elem()); err != nil {
		return nil, err
	}
	return out, nil
}
