package broker

import (
	"encoding/json"
	"time"

	"github.com/emitter-io/emitter/internal/message"
	"github.com/emitter-io/emitter/internal/network/mqtt"
	"github.com/emitter-io/emitter/internal/provider/contract"
	"github.com/emitter-io/emitter/internal/provider/storage"
	"github.com/emitter-io/emitter/internal/provider/usage"
	"github.com/emitter-io/emitter/internal/security"
	"github.com/emitter-io/emitter/internal/security/license"
	"github.com/emitter-io/emitter/internal/service/keygen"
	"github.com/emitter-io/emitter/internal/service/link"
	"github.com/emitter-io/emitter/internal/service/pubsub"
	"github.com/emitter-io/emitter/internal/verifrt"
)

type c11env struct {
	svc    *Service
	ciph   *hcipher
	lic    *license.V1
	trie   *message.Trie
	ps     *pubsub.Service
	notify *hnotifier
}

func c11new(v *verifrt.T) *c11env { return c11newState(v, contract.ContractStateAllowed) }

func c11newState(v *verifrt.T, state uint8) *c11env {
	e := &c11env{ciph: &hcipher{}, notify: &hnotifier{}, trie: message.NewTrie()}
	e.lic = &license.V1{User: v.U32("lic_contract"), Sign: v.U32("lic_sign")}
	contracts := contract.NewSingleContractProvider(e.lic, usage.NewNoop())
	if state != contract.ContractStateAllowed {
		verifrt.SetUnexported(contracts, "owner.State", state)
	}
	e.svc = &Service{contracts: contracts, subscriptions: e.trie, License: e.lic}
	e.svc.keygen = keygen.New(e.ciph, contracts, e.svc)
	e.ps = pubsub.New(e.svc, storage.NewNoop(), e.notify, e.trie)
	e.svc.pubsub = e.ps
	return e
}

func c11key(v *verifrt.T, name string) (security.Key, uint32) {
	k := security.Key(make([]byte, 24))
	k.SetSalt(v.U16(name + "salt"))
	k.SetMaster(v.U16(name + "master"))
	k.SetContract(v.U32(name + "contract"))
	k.SetSignature(v.U32(name + "sign"))
	k.SetPermissions(v.U8(name + "perm"))
	exp := v.U32(name + "exp")
	k[20], k[21], k[22], k[23] = byte(exp>>24), byte(exp>>16), byte(exp>>8), byte(exp)
	return k, exp
}

var c11letters = [4]byte{'a', 'b', 'c', '+'}

func c11channel(v *verifrt.T, name string, allowPlus bool) (string, []uint8, bool) {
	n := 1 + v.Choice(v.Bound("depth"), name+"n")
	hash := v.Bool(name + "hash")
	var b []byte
	var lv []uint8
	for i := 0; i < n; i++ {
		s := v.U8(name+"l", i) & 3
		if !allowPlus {
			v.Assume(s != 3)
		}
		lv = append(lv, s)
		b = append(b, c11letters[s], '/')
	}
	if hash {
		b = append(b, '#', '/')
	}
	return string(b), lv, hash
}

func c11type(v *verifrt.T, bound string) (string, uint8) {
	n := v.Choice(v.Bound(bound)+1, "typelen")
	letters := "rwslpexz" // z: a letter without meaning
	bits := [8]uint8{security.AllowRead, security.AllowWrite, security.AllowStore, security.AllowLoad, security.AllowPresence, security.AllowExtend, security.AllowExecute, 0}
	var b []byte
	var want uint8
	for i := 0; i < n; i++ {
		s := v.U8("ty", i) & 7
		b = append(b, letters[s])
		want |= bits[s]
	}
	return string(b), want
}

func c11request(v *verifrt.T, e *c11env, c *Conn, req keygen.Request) (*keygen.Response, bool) {
	var payload []byte
	if v.Symbolic() {
		hKeygenReq = req
	} else {
		payload, _ = json.Marshal(&req)
	}
	resp, ok := e.svc.keygen.OnRequest(c, payload)
	if !ok {
		return nil, false
	}
	return resp.(*keygen.Response), true
}

// VerifC11Create: key generation with an arbitrary presented key.
func VerifC11Create(v *verifrt.T) {
	// the contract may be allowed, refused or in the unknown state
	cstate := []uint8{contract.ContractStateAllowed, contract.ContractStateUnknown, contract.ContractStateRefused}[v.Choice(3, "cstate")]
	e := c11newState(v, cstate)
	parent, pexp := c11key(v, "p")
	// not an extendable key: that path is VerifC11Extend's
	v.Assume(parent.Permissions()&security.AllowExtend == 0 || parent.Permissions() == security.AllowMaster)
	pname := e.ciph.add(parent)
	channel, lv, hash := c11channel(v, "c", true)
	typ, wantAccess := c11type(v, "typelen")
	ttl := v.I32("ttl")
	conn, _ := hconn(e.svc, 0)
	t0 := time.Now().Unix()
	var resp *keygen.Response
	var ok bool
	if v.Bool("direct") {
		// the way the HTTP key-generation page mints: CreateKey called directly with the
		// presented key, the access mask and the expiry (Request.expires transcribed)
		expires := time.Unix(0, 0)
		if ttl != 0 {
			expires = time.Now().Add(time.Duration(ttl) * time.Second).UTC()
		}
		_, kerr := e.svc.keygen.CreateKey(pname, channel, wantAccess, expires)
		resp, ok = &keygen.Response{Status: 200}, kerr == nil
	} else {
		resp, ok = c11request(v, e, conn, keygen.Request{Key: pname, Channel: channel, Type: typ, TTL: ttl})
	}
	t1 := time.Now().Unix()
	v.Reach("create-requested")
	pat := int64(pexp) + 1262304000
	v.Assume(pexp == 0 || pat < t0 || pat > t1)
	parentOK := verifrt.And(parent.Permissions() == security.AllowMaster, verifrt.Or(pexp == 0, pat > t1))
	parentOK = verifrt.And(parentOK, verifrt.And(parent.Contract() == e.lic.User, verifrt.And(parent.Signature() == e.lic.Sign, parent.Master() == 1)))
	parentOK = verifrt.And(parentOK, cstate == contract.ContractStateAllowed)
	if !ok {
		v.Assert(len(e.ciph.minted) == 0, "C11.create.nothing-minted-on-refusal")
		v.Assert(verifrt.Not(parentOK), "C11.create.valid-master-key-is-served")
		return
	}
	v.Assert(parentOK, "C11.create.only-valid-unexpired-master-of-allowed-contract-mints")
	v.Assert(len(e.ciph.minted) == 1 && resp.Status == 200, "C11.create.one-key")
	k := e.ciph.minted[0]
	v.Assert(k.Permissions()&security.AllowMaster == 0, "C11.create.never-master")
	v.Assert(k.Permissions()&^wantAccess == 0, "C11.create.no-permission-beyond-request")
	v.Assert(k.Permissions() == wantAccess&^security.AllowMaster, "C11.create.requested-permissions-granted")
	v.Assert(k.Contract() == parent.Contract() && k.Signature() == parent.Signature() && k.Master() == parent.Master(), "C11.create.identity-copied")
	kexp := int64(uint32(k[20])<<24|uint32(k[21])<<16|uint32(k[22])<<8|uint32(k[23]))
	if ttl == 0 {
		v.Assert(kexp == 0, "C11.create.no-expiry-when-ttl-zero")
	} else if ttl > 0 {
		v.Assert(kexp+1262304000 >= t0+int64(ttl) && kexp+1262304000 <= t1+int64(ttl), "C11.create.expires-as-requested")
	}
	// target: the minted key authorises the requested channel itself ...
	probe := security.ParseChannel([]byte("K/" + channel))
	covered := k.ValidateChannel(probe)
	trailingPlus := lv[len(lv)-1] == 3
	allPlus := true
	for _, s := range lv {
		allPlus = verifrt.And(allPlus, s == 3)
	}
	knownClass := verifrt.And(trailingPlus, verifrt.Not(verifrt.And(allPlus, verifrt.Not(hash))))
	if !hash {
		v.Assert(verifrt.Or(covered, knownClass), "C11.create.targets-requested-channel")
	}
	// ... and not a sibling that differs in its first literal level
	if lv[0] != 3 {
		sib := []byte("K/" + channel)
		sib[2] = c11letters[(lv[0]+1)%3]
		v.Assert(!k.ValidateChannel(security.ParseChannel(sib)), "C11.create.does-not-target-sibling")
	}
	v.Observe("perm", uint64(k.Permissions()))
}

// VerifC11Extend: private-link extension with an extendable parent key.
func VerifC11Extend(v *verifrt.T) {
	e := c11new(v)
	parent, pexp := c11key(v, "p")
	v.Assume(parent.Permissions()&security.AllowExtend != 0 && parent.Permissions() != security.AllowMaster)
	ptarget, _, _ := c11channel(v, "pt", false)
	v.Assert(parent.SetTarget(ptarget) == nil, "C11.extend.parent-target-ok")
	pname := e.ciph.add(parent)
	channel, _, hash := c11channel(v, "c", false)
	typ, wantAccess := c11type(v, "xtypelen")
	ttl := v.I32("ttl")
	conn, _ := hconn(e.svc, 0)
	t0 := time.Now().Unix()
	resp, ok := c11request(v, e, conn, keygen.Request{Key: pname, Channel: channel, Type: typ, TTL: ttl})
	t1 := time.Now().Unix()
	v.Reach("extend-requested")
	pat := int64(pexp) + 1262304000
	v.Assume(pexp == 0 || pat < t0 || pat > t1)
	if !ok {
		v.Assert(len(e.ciph.minted) == 0, "C11.extend.nothing-minted-on-refusal")
		return
	}
	parentOK := verifrt.Or(pexp == 0, pat > t1)
	parentOK = verifrt.And(parentOK, verifrt.And(parent.Contract() == e.lic.User, verifrt.And(parent.Signature() == e.lic.Sign, parent.Master() == 1)))
	v.Assert(parentOK, "C11.extend.only-valid-unexpired-key-of-allowed-contract-extends")
	v.Assert(len(e.ciph.minted) == 1 && resp.Status == 200, "C11.extend.one-key")
	k := e.ciph.minted[0]
	v.Assert(k.Permissions()&(security.AllowMaster|security.AllowExtend) == 0, "C11.extend.never-master-never-extendable")
	v.Assert(k.Permissions()&^parent.Permissions() == 0, "C11.extend.no-permission-beyond-parent")
	v.Assert(k.Permissions()&^wantAccess == 0, "C11.extend.no-permission-beyond-request")
	v.Assert(k.Contract() == parent.Contract() && k.Signature() == parent.Signature() && k.Master() == parent.Master(), "C11.extend.identity-copied")
	kexp := int64(uint32(k[20])<<24|uint32(k[21])<<16|uint32(k[22])<<8|uint32(k[23]))
	if ttl == 0 {
		v.Assert(kexp == 0, "C11.extend.no-expiry-when-ttl-zero")
	} else if ttl > 0 {
		v.Assert(kexp+1262304000 >= t0+int64(ttl) && kexp+1262304000 <= t1+int64(ttl), "C11.extend.expires-as-requested")
	}
	// target: only the sub-channel named after the requesting connection
	base := channel
	if hash {
		base = channel[:len(channel)-2]
	}
	own := security.ParseChannel([]byte("K/" + base + conn.ID() + "/"))
	other := security.ParseChannel([]byte("K/" + base + "connz/"))
	parentCh := security.ParseChannel([]byte("K/" + base))
	if !hash {
		v.Assert(k.ValidateChannel(own), "C11.extend.targets-own-subchannel")
	}
	v.Assert(!k.ValidateChannel(other), "C11.extend.not-another-connections-subchannel")
	v.Assert(!k.ValidateChannel(parentCh), "C11.extend.not-the-extendable-channel-itself")
	v.Assert(resp.Channel == base+conn.ID()+"/"+channel[len(base):], "C11.extend.response-names-the-subchannel")
}

// VerifC11ExtGuard: a key carrying the extend permission cannot itself be used to
// subscribe, unsubscribe, publish or auto-subscribe through a link.
func VerifC11ExtGuard(v *verifrt.T) {
	e := c11new(v)
	k, _ := c11key(v, "p")
	v.Assume(k.Permissions()&security.AllowExtend != 0)
	k[20], k[21], k[22], k[23] = 0, 0, 0, 0
	v.Assert(k.SetTarget("a/") == nil, "C11.guard.target-ok")
	name := e.ciph.add(k)
	conn, sock := hconn(e.svc, 0)
	switch v.Choice(4, "how") {
	case 0:
		err := e.ps.OnSubscribe(conn, []byte(name+"/a/"))
		v.Assert(err != nil, "C11.guard.subscribe-refused")
	case 1:
		err := e.ps.OnPublish(conn, &mqtt.Publish{Topic: []byte(name + "/a/"), Payload: []byte("x")})
		v.Assert(err != nil, "C11.guard.publish-refused")
	case 2:
		err := e.ps.OnUnsubscribe(conn, []byte(name+"/a/"))
		v.Assert(err != nil, "C11.guard.unsubscribe-refused")
	case 3:
		req := link.Request{Name: "l1", Key: name, Channel: "a/", Subscribe: true}
		var payload []byte
		if v.Symbolic() {
			hLinkReq = req
		} else {
			payload, _ = json.Marshal(&req)
		}
		link.New(e.svc, e.ps).OnRequest(conn, payload)
	}
	v.Reach("guard-done")
	v.Assert(e.trie.Count() == 0, "C11.guard.extendable-key-subscribed-nothing")
	v.Assert(len(e.notify.subs) == 0, "C11.guard.no-subscription-announced")
	_ = sock
}

// VerifC11OddNames: "targets exactly the requested channel" for channel names that only look
// like wildcards - a level that ends or starts with '#' or '+' is an ordinary name. A key
// minted for such a channel authorises no sibling, no parent and nothing deeper.
func VerifC11OddNames(v *verifrt.T) {
	e := c11new(v)
	master := security.Key(make([]byte, 24))
	master.SetMaster(1)
	master.SetContract(e.lic.User)
	master.SetSignature(e.lic.Sign)
	master.SetPermissions(security.AllowMaster)
	mname := e.ciph.add(master)
	names := []string{"a#/", "x/a#/", "#a/", "a+/", "x/+a/"}
	channel := names[v.Choice(len(names), "name")]
	conn, _ := hconn(e.svc, 0)
	_, ok := c11request(v, e, conn, keygen.Request{Key: mname, Channel: channel, Type: "rw", TTL: 0})
	v.Reach("odd-name-requested")
	if !ok {
		v.Assert(len(e.ciph.minted) == 0, "C11.odd.nothing-minted-on-refusal")
		return
	}
	v.Assert(len(e.ciph.minted) == 1, "C11.odd.one-key")
	k := e.ciph.minted[0]
	for _, probe := range []string{"a/", "x/", "b/", "zz/", "x/b/", "a#/deeper/", "x/a#/deeper/", "a/deeper/"} {
		if probe == channel {
			continue
		}
		ch := security.ParseChannel([]byte("K/" + probe))
		if ch.ChannelType == security.ChannelInvalid {
			continue
		}
		v.Assert(!k.ValidateChannel(ch), "C11.odd.key-for-an-odd-name-authorises-nothing-else")
	}
}
