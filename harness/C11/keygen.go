package keygen

import (
	"net/http"
	"net/url"

	"github.com/emitter-io/emitter/internal/security"
	"github.com/emitter-io/emitter/internal/verifrt"
)

// http.Request.FormValue parses the body on first use (net/http, mime/multipart); for a
// request whose Form is already populated it is this lookup.
func c11FormValue(r *http.Request, key string) string {
	if vs := r.Form[key]; len(vs) > 0 {
		return vs[0]
	}
	return ""
}

// VerifC11Form: the HTTP key-generation page. Each permission box arrives as "on", as "off"
// or not at all (how browsers send an unticked box); the form the handler starts from has
// the subscribe box pre-ticked for display. The access mask handed to CreateKey is exactly
// the boxes that arrived as "on" - "never has a permission that was not requested".
func VerifC11Form(v *verifrt.T) {
	boxes := []struct {
		name string
		perm uint8
	}{
		{"sub", security.AllowRead}, {"pub", security.AllowWrite}, {"store", security.AllowStore},
		{"load", security.AllowLoad}, {"presence", security.AllowPresence}, {"extend", security.AllowExtend},
	}
	form := url.Values{"key": {"K"}, "channel": {"a/"}}
	want := security.AllowNone
	for i, b := range boxes {
		switch v.Choice(3, "box", i) {
		case 1:
			form[b.name] = []string{"on"}
			want |= b.perm
		case 2:
			form[b.name] = []string{"off"}
		}
	}
	req := &http.Request{Method: "POST", Form: form}
	f := keygenForm{Sub: true} // as the handler does
	ok := f.parse(req)
	v.Reach("form-parsed")
	v.Assert(ok && f.isValid(), "C11.form.accepted")
	v.Assert(f.access() == want, "C11.form.access-is-exactly-the-ticked-boxes")
	v.Assert(f.Key == "K" && f.Channel == "a/" && f.expires().Unix() == 0, "C11.form.key-channel-expiry")
}
