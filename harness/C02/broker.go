package broker

import (
	"bytes"
	"encoding/json"
	"net"
	"time"

	"github.com/emitter-io/stats"

	"github.com/emitter-io/emitter/internal/event"
	"github.com/emitter-io/emitter/internal/message"
	"github.com/emitter-io/emitter/internal/network/mqtt"
	"github.com/emitter-io/emitter/internal/provider/contract"
	"github.com/emitter-io/emitter/internal/provider/storage"
	"github.com/emitter-io/emitter/internal/security"
	"github.com/emitter-io/emitter/internal/security/hash"
	"github.com/emitter-io/emitter/internal/service/link"
	"github.com/emitter-io/emitter/internal/service/pubsub"
	"github.com/emitter-io/emitter/internal/verifrt"
)

// ---- environment ----

type c02sock struct {
	writes [][]byte
	closed bool
}

func (s *c02sock) Read(b []byte) (int, error)         { return 0, nil }
func (s *c02sock) Write(b []byte) (int, error)        { s.writes = append(s.writes, append([]byte(nil), b...)); return len(b), nil }
func (s *c02sock) Close() error                       { s.closed = true; return nil }
func (s *c02sock) LocalAddr() net.Addr                { return nil }
func (s *c02sock) RemoteAddr() net.Addr               { return nil }
func (s *c02sock) SetDeadline(t time.Time) error      { return nil }
func (s *c02sock) SetReadDeadline(t time.Time) error  { return nil }
func (s *c02sock) SetWriteDeadline(t time.Time) error { return nil }

type c02notifier struct{}

func (c02notifier) NotifySubscribe(message.Subscriber, *event.Subscription)   {}
func (c02notifier) NotifyUnsubscribe(message.Subscriber, *event.Subscription) {}

type c02auth struct{}

func (c02auth) Authorize(*security.Channel, uint8) (contract.Contract, security.Key, bool) {
	return nil, nil, false
}

func c02env() (*Service, *pubsub.Service, *message.Trie) {
	trie := message.NewTrie()
	svc := &Service{subscriptions: trie, measurer: stats.NewNoop()}
	ps := pubsub.New(c02auth{}, storage.NewNoop(), c02notifier{}, trie)
	svc.pubsub = ps
	return svc, ps, trie
}

func c02conn(svc *Service, i int) (*Conn, *c02sock) {
	sock := &c02sock{}
	return &Conn{
		socket:   sock,
		luid:     security.ID(i + 1),
		guid:     "conn-" + string(rune('a'+i)),
		service:  svc,
		subs:     message.NewCounters(),
		measurer: svc.measurer,
		links:    map[string]string{},
	}, sock
}

// ---- reference ----

type c02op struct {
	kind int // 0 subscribe, 1 unsubscribe, 2 publish
	who  int
	f    message.Ssid
}

func c02same(a, b message.Ssid) bool {
	if len(a) != len(b) {
		return false
	}
	r := true
	for k := range a {
		r = verifrt.And(r, a[k] == b[k])
	}
	return r
}

// emitter mode: level-wise prefix (the harness excludes the reserved words, so no wildcards)
func c02prefix(f, c message.Ssid) bool {
	if len(f) > len(c) {
		return false
	}
	r := true
	for k := range f {
		r = verifrt.And(r, f[k] == c[k])
	}
	return r
}

const (
	c02wild  = uint32(1815237614)
	c02multi = uint32(4285801373)
	c02share = uint32(1480642916)
)

func c02draw(v *verifrt.T, i int) message.Ssid { return c02drawN(v, i, 0) }

func c02drawN(v *verifrt.T, i int, fixed int) message.Ssid {
	n := fixed
	if n == 0 {
		n = 2 + v.Choice(v.Bound("depth"), "len", i) // contract + 1..depth levels
	}
	f := make(message.Ssid, n)
	for k := range f {
		f[k] = v.U32("w", i, k)
		// literal levels only: wildcard and share semantics are C01's subject
		v.Assume(f[k] != c02wild && f[k] != c02multi && f[k] != c02share)
	}
	return f
}

// held(ops, i, c, f): connection c holds an acknowledged, not yet removed subscription equal to ops[i].f at the end of ops
func c02live(ops []c02op, i int) bool {
	if ops[i].kind != 0 {
		return false
	}
	r := true
	for j := i + 1; j < len(ops); j++ {
		if ops[j].kind == 1 && ops[j].who == ops[i].who {
			r = verifrt.And(r, verifrt.Not(c02same(ops[j].f, ops[i].f)))
		}
	}
	return r
}

// VerifC02Book: histories of subscribe / unsubscribe / publish at the ssid level on
// two real *broker.Conn values through the real pubsub service and trie. Every
// subscribe and unsubscribe is acknowledged by the broker (OnSubscribe / OnUnsubscribe
// ignore the boolean), so the reference is the set of (connection, filter) pairs.
func VerifC02Book(v *verifrt.T) { c02history(v, nil) }

// VerifC02Shapes: the same oracle on longer histories of fixed shape by one connection
// (filters still arbitrary): subscribe twice / unsubscribe once, subscribe two filters /
// unsubscribe both, subscribe / unsubscribe / subscribe / unsubscribe - each followed by a
// publish. These are the shapes in which duplicate and colliding filters meet the
// per-connection bookkeeping.
func VerifC02Shapes(v *verifrt.T) {
	shapes := [][]int{{0, 0, 1, 2}, {0, 0, 1, 1, 2}, {0, 1, 0, 1, 2}, {0, 0, 2, 1, 2}, {0, 0, 0, 1, 2}} // the last: three filters that may share one bookkeeping bucket
	sh := v.Choice(len(shapes), "shape")
	c02historyN(v, shapes[sh], sh == 0)
}

func c02history(v *verifrt.T, kinds []int) { c02historyN(v, kinds, false) }

func c02historyN(v *verifrt.T, kinds []int, nested bool) {
	svc, ps, _ := c02env()
	nconn := v.Bound("conns")
	conns := make([]*Conn, nconn)
	socks := make([]*c02sock, nconn)
	for i := range conns {
		conns[i], socks[i] = c02conn(svc, i)
	}
	n := v.Bound("ops")
	if kinds != nil {
		n = len(kinds)
	}
	var ops []c02op
	for i := 0; i < n; i++ {
		var o c02op
		if kinds != nil {
			// contract + 1 or 2 levels: a/b and b/a collide in the XOR fold, a/ and a/b/ nest in the index
			// (the lengths vary in the first shape only)
			flen := 3
			if nested {
				flen = 2 + v.Choice(2, "slen", i)
			}
			o = c02op{kind: kinds[i], who: 0, f: c02drawN(v, i, flen)}
		} else {
			o = c02op{kind: v.Choice(3, "kind", i), who: v.Choice(nconn, "who", i), f: c02draw(v, i)}
			if i == 0 {
				v.Assume(o.kind == 0 && o.who == 0)
			}
			if i == n-1 {
				v.Assume(o.kind == 2) // a history that does not end in a publish observes nothing new
			}
		}
		before := make([]int, nconn)
		for c := range socks {
			before[c] = len(socks[c].writes)
		}
		switch o.kind {
		case 0:
			ps.Subscribe(conns[o.who], &event.Subscription{Conn: conns[o.who].luid, Ssid: o.f, Channel: []byte("ch/")})
		case 1:
			ps.Unsubscribe(conns[o.who], &event.Subscription{Conn: conns[o.who].luid, Ssid: o.f, Channel: []byte("ch/")})
		case 2:
			exclude := v.Bool("me0", i)
			m := &message.Message{ID: make(message.ID, 0), Channel: []byte("ch/"), Payload: []byte{0x42}}
			m.ID = message.NewID(o.f)
			pub := conns[o.who]
			ps.Publish(m, func(s message.Subscriber) bool { return !(exclude && s.ID() == pub.ID()) })
			v.Reach("published")
			for c := 0; c < nconn; c++ {
				want := false
				for j := range ops {
					if ops[j].who == c {
						want = verifrt.Or(want, verifrt.And(c02live(ops, j), c02prefix(ops[j].f, o.f)))
					}
				}
				if c == o.who {
					want = verifrt.And(want, verifrt.Not(exclude))
				}
				got := len(socks[c].writes) - before[c]
				v.Assert(got <= 1, "C02.book.at-most-once")
				if got >= 1 {
					v.Assert(want, "C02.book.only-holders-receive")
					pk, err := mqtt.DecodePacket(bytes.NewReader(socks[c].writes[len(socks[c].writes)-1]), 65536)
					v.Assert(err == nil, "C02.book.well-formed-packet")
					p := pk.(*mqtt.Publish)
					v.Assert(bytes.Equal(p.Topic, []byte("ch/")) && bytes.Equal(p.Payload, []byte{0x42}), "C02.book.channel-and-payload-unchanged")
				} else {
					v.Assert(verifrt.Not(want), "C02.book.every-holder-receives")
				}
			}
		}
		if o.kind != 2 {
			for c := range socks {
				v.Assert(len(socks[c].writes) == before[c], "C02.book.no-delivery-without-publish")
			}
		}
		ops = append(ops, o)
	}
	v.Observe("w0", uint64(len(socks[0].writes)))
}

// ---------- C02b: one request from bytes ----------

// VerifC02Request: OnSubscribe / OnUnsubscribe / OnPublish on a topic of arbitrary
// bytes (key "K0" + "/" + up to `topic` symbolic bytes) for a connection that already
// holds one subscription; the key grants read/write on a/ only. A request that fails
// parsing or authorisation changes nothing and returns an error (the caller answers
// with emitter/error/); a successful one acts on exactly the parsed channel.
func VerifC02Request(v *verifrt.T) {
	e := c08new(v)
	k := security.Key(make([]byte, 24))
	k.SetMaster(1)
	k.SetContract(7)
	k.SetSignature(9)
	k.SetPermissions(security.AllowReadWrite)
	k.SetTarget("a/")
	name := e.ciph.add(k)
	a, asock := hconn(e.svc, 0)
	b, bsock := hconn(e.svc, 1)
	// b listens on a/ ; a already holds a/ too
	v.Assert(e.ps.OnSubscribe(b, []byte(name+"/a/")) == nil, "C02.req.env")
	v.Assert(e.ps.OnSubscribe(a, []byte(name+"/a/")) == nil, "C02.req.env")
	count0, nodes0 := e.trie.Count(), e.trie.VerifNodes()
	holdsA0 := e.trie.VerifHolds(a)

	n := v.Choice(v.Bound("topic")+1, "n")
	topic := append([]byte(name+"/"), v.Bytes(n, "t")...)
	orig := append([]byte(nil), topic...)
	// channel levels are 32-bit murmur hashes: another level name with the hash of "a" is the
	// same channel to the broker by design (stated outside the claim); such texts are left out
	{
		t := topic[len(name)+1:]
		for len(t) > 0 && t[0] == '/' { // subscribe normalises leading separators away
			t = t[1:]
		}
		end := 0
		for end < len(t) && t[end] != '/' {
			end++
		}
		if lvl := t[:end]; !(len(lvl) == 1 && lvl[0] == 'a') && len(lvl) > 1 {
			v.Assume(hash.Of(lvl) != hash.OfString("a"))
		}
	}
	kind := v.Choice(3, "kind")
	var err error
	isErr := false
	switch kind {
	case 0:
		r := e.ps.OnSubscribe(a, topic)
		isErr = r != nil
	case 1:
		r := e.ps.OnUnsubscribe(a, topic)
		isErr = r != nil
	case 2:
		r := e.ps.OnPublish(a, &mqtt.Publish{Topic: topic, Payload: []byte{0x42}})
		isErr = r != nil
	}
	_ = err
	v.Reach("request-served")
	// what the request text means: the channel part is exactly "a/" (plus optional options)
	rest := orig[len(name)+1:]
	isA := len(rest) >= 2 && rest[0] == 'a' && rest[1] == '/' && (len(rest) == 2 || rest[2] == '?')
	if isErr {
		v.Assert(e.trie.Count() == count0 && e.trie.VerifNodes() == nodes0 && e.trie.VerifHolds(a) == holdsA0, "C02.req.failed-request-changes-nothing")
		v.Assert(len(bsock.writes) == 0 && len(asock.writes) == 0, "C02.req.failed-request-delivers-nothing")
		return
	}
	if kind == 0 {
		// subscribe normalises MQTT-style topics first ("//" -> "/", "#" -> "#/"): a/ may be written /a/, a//, ...
		r := rest
		for len(r) > 0 && r[0] == '/' {
			r = r[1:]
		}
		ok := len(r) >= 2 && r[0] == 'a' && r[1] == '/'
		r2 := r
		if ok {
			r2 = r[1:]
			for len(r2) > 0 && r2[0] == '/' {
				r2 = r2[1:]
			}
		}
		v.Assert(ok && (len(r2) == 0 || r2[0] == '?'), "C02.req.only-the-keyed-channel-is-served")
	} else {
		v.Assert(isA, "C02.req.only-the-keyed-channel-is-served")
	}
	switch kind {
	case 0:
		v.Assert(e.trie.Count() == count0 && e.trie.VerifHolds(a) == 1, "C02.req.duplicate-subscribe-is-idempotent")
	case 1:
		v.Assert(e.trie.VerifHolds(a) == 0 && e.trie.VerifHolds(b) == 1, "C02.req.unsubscribe-removes-only-own")
	case 2:
		v.Assert(len(bsock.writes) == 1, "C02.req.publish-reaches-subscriber-once")
		p, derr := mqtt.DecodePacket(bytes.NewReader(bsock.writes[0]), 65536)
		v.Assert(derr == nil, "C02.req.delivered-packet-well-formed")
		pub := p.(*mqtt.Publish)
		v.Assert(bytes.Equal(pub.Topic, []byte("a/")) && bytes.Equal(pub.Payload, []byte{0x42}), "C02.req.channel-key-stripped-payload-unchanged")
	}
	v.Observe("bw", uint64(len(bsock.writes)))
}

// VerifC02Link: a link shortcut (1-2 alphanumeric characters) registered by a connection
// expands, for that connection only, to the channel and key it was created with: a
// publish on the alias reaches the subscribers of the channel once, under the channel's
// name; another connection's identical alias text is not expanded.
func VerifC02Link(v *verifrt.T) {
	e := c08new(v)
	k := security.Key(make([]byte, 24))
	k.SetMaster(1)
	k.SetContract(7)
	k.SetSignature(9)
	k.SetPermissions(security.AllowReadWrite)
	k.SetTarget("a/")
	name := e.ciph.add(k)
	// the key the link is made with may be publish-only: the shortcut still exists (it is the
	// publisher's), only the automatic subscription needs read
	canRead := v.Bool("link-key-can-read")
	linkKey := name
	if !canRead {
		wk := append(security.Key(nil), k...)
		wk.SetPermissions(security.AllowWrite)
		linkKey = e.ciph.add(wk)
	}
	a, asock := hconn(e.svc, 0)
	b, bsock := hconn(e.svc, 1)
	c, _ := hconn(e.svc, 2)
	v.Assert(e.ps.OnSubscribe(b, []byte(name+"/a/")) == nil, "C02.link.env")
	// the link may carry channel options (me=0: do not echo to the publisher) and may
	// subscribe its owner
	me0, ownerSubscribes := v.Bool("me0"), v.Bool("ownersub")
	linkChannel := "a/"
	if me0 {
		linkChannel = "a/?me=0"
	}
	alias := v.Bytes(1+v.Choice(2, "alen"), "alias")
	for _, ch := range alias {
		v.Assume((ch >= 'a' && ch <= 'z') || (ch >= '0' && ch <= '9'))
	}
	req := link.Request{Name: string(alias), Key: linkKey, Channel: linkChannel, Subscribe: ownerSubscribes}
	var payload []byte
	if v.Symbolic() {
		hLinkReq = req
	} else {
		payload, _ = json.Marshal(&req)
	}
	_, ok := link.New(e.svc, e.ps).OnRequest(a, payload)
	v.Assert(ok, "C02.link.created")
	v.Reach("link-created")
	// the owner publishes on the alias
	err := e.ps.OnPublish(a, &mqtt.Publish{Topic: append([]byte(nil), alias...), Payload: []byte{0x43}})
	v.Assert(err == nil, "C02.link.publish-on-alias-accepted")
	v.Assert(len(bsock.writes) == 1, "C02.link.delivered-once")
	// the owner hears its own message exactly when it subscribed and did not exclude itself
	wantOwn := 0
	if ownerSubscribes && !me0 && canRead {
		wantOwn = 1
	}
	v.Assert(len(asock.writes) == wantOwn, "C02.link.options-of-the-linked-channel-apply")
	if len(bsock.writes) == 1 {
		p, derr := mqtt.DecodePacket(bytes.NewReader(bsock.writes[0]), 65536)
		v.Assert(derr == nil, "C02.link.packet-well-formed")
		pub := p.(*mqtt.Publish)
		v.Assert(bytes.Equal(pub.Topic, []byte("a/")) && bytes.Equal(pub.Payload, []byte{0x43}), "C02.link.channel-and-payload")
	}
	// somebody else's connection has no such link: the same text is just an invalid channel
	err2 := e.ps.OnPublish(c, &mqtt.Publish{Topic: append([]byte(nil), alias...), Payload: []byte{0x44}})
	v.Assert(err2 != nil && len(bsock.writes) == 1, "C02.link.alias-is-per-connection")
	v.Observe("bw", uint64(len(bsock.writes)))
}

// VerifC02Packets: the packet-level half of the statement - what the client is *answered*.
// One SUBSCRIBE (one or two topics), UNSUBSCRIBE or PUBLISH packet through the real
// Conn.onReceive, each topic keyed by a key that allows the operation or by one that does
// not: the acknowledgement carries the request's message id; a SUBACK has one return code
// per topic, 0x80 exactly for the refused ones; every refused topic is answered with one
// error packet on emitter/error/ and changes nothing; an accepted PUBLISH reaches the
// subscriber once, a refused one does not; PUBACK exactly for QoS > 0.
func VerifC02Packets(v *verifrt.T) {
	e := c08new(v)
	good := security.Key(make([]byte, 24))
	good.SetMaster(1)
	good.SetContract(7)
	good.SetSignature(9)
	good.SetPermissions(security.AllowReadWrite)
	good.SetTarget("a/")
	bad := append(security.Key(nil), good...)
	bad.SetPermissions(security.AllowLoad) // valid key, wrong permission
	names := []string{e.ciph.add(good), e.ciph.add(bad)}
	a, asock := hconn(e.svc, 0)
	b, bsock := hconn(e.svc, 1)
	v.Assert(e.ps.OnSubscribe(b, []byte(names[0]+"/a/")) == nil, "C02.pkt.env")
	mid := v.U16("mid")
	kind := v.Choice(3, "kind")
	ntopics := 1
	if kind == 0 {
		ntopics += v.Choice(2, "two")
	}
	var refused [2]bool
	var topics []mqtt.TopicQOSTuple
	for i := 0; i < ntopics; i++ {
		refused[i] = v.Bool("badkey", i)
		k := names[0]
		if refused[i] {
			k = names[1]
		}
		topics = append(topics, mqtt.TopicQOSTuple{Topic: []byte(k + "/a/"), Qos: v.U8("tqos", i) & 1})
	}
	qos := v.U8("qos") & 1
	count0 := e.trie.Count()
	var err error
	switch kind {
	case 0:
		err = a.onReceive(&mqtt.Subscribe{Header: mqtt.Header{QOS: 1}, MessageID: mid, Subscriptions: topics})
	case 1:
		err = a.onReceive(&mqtt.Unsubscribe{Header: mqtt.Header{QOS: 1}, MessageID: mid, Topics: topics})
	case 2:
		err = a.onReceive(&mqtt.Publish{Header: mqtt.Header{QOS: qos}, MessageID: mid, Topic: topics[0].Topic, Payload: []byte{0x42}})
	}
	v.Reach("packet-served")
	v.Assert(err == nil, "C02.pkt.connection-stays-up")
	// what A was sent back
	nerr, nack := 0, 0
	nrefused := 0
	for i := 0; i < ntopics; i++ {
		if refused[i] {
			nrefused++
		}
	}
	for _, w := range asock.writes {
		p, derr := mqtt.DecodePacket(bytes.NewReader(w), 65536)
		v.Assert(derr == nil, "C02.pkt.reply-well-formed")
		switch r := p.(type) {
		case *mqtt.Publish:
			if bytes.Equal(r.Topic, []byte("emitter/error/")) {
				nerr++
			} else {
				v.Assert(kind == 2 && !refused[0], "C02.pkt.no-unrequested-delivery") // (me: the publisher does not hold a subscription)
			}
		case *mqtt.Suback:
			nack++
			v.Assert(kind == 0 && r.MessageID == mid && len(r.Qos) == ntopics, "C02.pkt.suback-matches-request")
			for i := 0; i < ntopics && i < len(r.Qos); i++ {
				if refused[i] {
					v.Assert(r.Qos[i] == 0x80, "C02.pkt.refused-topic-is-flagged")
				} else {
					v.Assert(r.Qos[i] == topics[i].Qos, "C02.pkt.accepted-topic-gets-its-qos")
				}
			}
		case *mqtt.Unsuback:
			nack++
			v.Assert(kind == 1 && r.MessageID == mid, "C02.pkt.unsuback-matches-request")
		case *mqtt.Puback:
			nack++
			v.Assert(kind == 2 && qos > 0 && r.MessageID == mid, "C02.pkt.puback-matches-request")
		default:
			v.Assert(false, "C02.pkt.unexpected-reply")
		}
	}
	v.Assert(nerr == nrefused, "C02.pkt.one-error-reply-per-refused-request")
	switch kind {
	case 0:
		v.Assert(nack == 1, "C02.pkt.acknowledged-once")
		held := 0
		for i := 0; i < ntopics; i++ {
			if !refused[i] {
				held = 1
			}
		}
		v.Assert(e.trie.VerifHolds(a) == held && e.trie.Count() == count0+held, "C02.pkt.subscribed-exactly-where-accepted")
		v.Assert(len(bsock.writes) == 0, "C02.pkt.no-delivery-without-publish")
	case 1:
		v.Assert(nack == 1 && e.trie.Count() == count0 && e.trie.VerifHolds(b) == 1, "C02.pkt.unsubscribe-touches-only-own")
	case 2:
		v.Assert(nack == int(qos), "C02.pkt.puback-iff-qos")
		if refused[0] {
			v.Assert(len(bsock.writes) == 0, "C02.pkt.refused-publish-delivers-nothing")
		} else {
			v.Assert(len(bsock.writes) == 1, "C02.pkt.accepted-publish-delivered-once")
		}
	}
	v.Observe("replies", uint64(len(asock.writes)))
}

// VerifC02BrokenSubscriber: "a client receives a message if and only if ... it held an
// acknowledged subscription" - whatever happens to the *other* subscribers. Three connections
// hold the channel; the socket of one of them (any) fails every write - a half-dead connection
// that is still indexed. A publish still reaches the two healthy ones, once each.
func VerifC02BrokenSubscriber(v *verifrt.T) {
	e := c08new(v)
	k := security.Key(make([]byte, 24))
	k.SetMaster(1)
	k.SetContract(7)
	k.SetSignature(9)
	k.SetPermissions(security.AllowReadWrite)
	k.SetTarget("a/")
	name := e.ciph.add(k)
	var conns [3]*Conn
	var socks [3]*hsock
	for i := range conns {
		conns[i], socks[i] = hconn(e.svc, i)
		v.Assert(e.ps.OnSubscribe(conns[i], []byte(name+"/a/")) == nil, "C02.broken.env")
	}
	pub, _ := hconn(e.svc, 3)
	broken := v.Choice(3, "broken")
	socks[broken].fail = true
	err := e.ps.OnPublish(pub, &mqtt.Publish{Topic: []byte(name + "/a/"), Payload: []byte{0x45}})
	v.Reach("published-past-a-broken-subscriber")
	v.Assert(err == nil, "C02.broken.publish-accepted")
	for i := range conns {
		if i != broken {
			v.Assert(len(socks[i].writes) == 1, "C02.broken.healthy-subscribers-still-receive-once")
		}
	}
}
