package mqtt

import (
	"bytes"

	"github.com/emitter-io/emitter/internal/verifrt"
)

// refEncodeLength is the MQTT 3.1.1 (section 2.2.3) remaining-length algorithm,
// transcribed from the specification's pseudo code.
func refEncodeLength(x uint32) []byte {
	var out []byte
	for {
		d := byte(x % 128)
		x = x / 128
		if x > 0 {
			d |= 0x80
		}
		out = append(out, d)
		if x == 0 {
			return out
		}
	}
}

// VerifC16Len: for every remaining length n < 2^28 the broker's encodeLength /
// writeHeader produce exactly the spec digits (minimal count) and decodeHeader
// reads n back; header flag bits survive.
func VerifC16Len(v *verifrt.T) {
	n := v.U32("n")
	v.Assume(n < 1<<28)
	mt := v.U8("type")
	v.Assume(mt >= 1 && mt <= 14)
	h := Header{DUP: v.Bool("dup"), Retain: v.Bool("retain"), QOS: v.U8("qos")}
	v.Assume(h.QOS <= 2)

	head := make([]byte, 6)
	start := writeHeader(head, mt, &h, int(n))
	enc := head[start:]
	ref := refEncodeLength(n)
	v.Reach("encoded")
	v.Assert(len(enc) == 1+len(ref), "C16.len.digit-count")
	for i := range ref {
		v.Assert(enc[1+i] == ref[i], "C16.len.digits")
	}
	v.Assert(enc[0] == mt<<4|verifrt.B2U8(h.DUP)<<3|h.QOS<<1|verifrt.B2U8(h.Retain), "C16.len.firstbyte")

	hdr, size, typ, err := decodeHeader(bytes.NewReader(enc))
	v.Assert(err == nil, "C16.len.decode-ok")
	v.Assert(size == n, "C16.len.roundtrip")
	v.Assert(typ == mt, "C16.len.type")
	flagged := mt == TypeOfPublish || mt == TypeOfSubscribe || mt == TypeOfUnsubscribe || mt == TypeOfPubrel
	if flagged {
		v.Assert(hdr.DUP == h.DUP, "C16.len.dup")
		v.Assert(hdr.QOS == h.QOS, "C16.len.qos")
		v.Assert(hdr.Retain == h.Retain, "C16.len.retain")
	}
	v.Observe("size", uint64(size))
	v.Observe("b0", uint64(enc[0]))
}
