package mqtt

import (
	"bytes"

	"github.com/eclipse/paho.mqtt.golang/packets"

	"github.com/emitter-io/emitter/internal/verifrt"
)

// refEncodeLength is the MQTT 3.1.1 (section 2.2.3) remaining-length algorithm,
// transcribed from the specification's pseudo code.
func refEncodeLength(x uint32) []byte {
	var out []byte
	for {
		d := byte(x % 128)
		x = x / 128
		if x > 0 {
			d |= 0x80
		}
		out = append(out, d)
		if x == 0 {
			return out
		}
	}
}

// VerifC16Len: for every remaining length n < 2^28 the broker's encodeLength /
// writeHeader produce exactly the spec digits (minimal count) and decodeHeader
// reads n back; header flag bits survive.
func VerifC16Len(v *verifrt.T) {
	n := v.U32("n")
	v.Assume(n < 1<<28)
	mt := v.U8("type")
	v.Assume(mt >= 1 && mt <= 14)
	h := Header{DUP: v.Bool("dup"), Retain: v.Bool("retain"), QOS: v.U8("qos")}
	v.Assume(h.QOS <= 2)

	head := make([]byte, 6)
	start := writeHeader(head, mt, &h, int(n))
	enc := head[start:]
	ref := refEncodeLength(n)
	v.Reach("encoded")
	v.Assert(len(enc) == 1+len(ref), "C16.len.digit-count")
	for i := range ref {
		v.Assert(enc[1+i] == ref[i], "C16.len.digits")
	}
	v.Assert(enc[0] == mt<<4|verifrt.B2U8(h.DUP)<<3|h.QOS<<1|verifrt.B2U8(h.Retain), "C16.len.firstbyte")

	hdr, size, typ, err := decodeHeader(bytes.NewReader(enc))
	v.Assert(err == nil, "C16.len.decode-ok")
	v.Assert(size == n, "C16.len.roundtrip")
	v.Assert(typ == mt, "C16.len.type")
	flagged := mt == TypeOfPublish || mt == TypeOfSubscribe || mt == TypeOfUnsubscribe || mt == TypeOfPubrel
	if flagged {
		v.Assert(hdr.DUP == h.DUP, "C16.len.dup")
		v.Assert(hdr.QOS == h.QOS, "C16.len.qos")
		v.Assert(hdr.Retain == h.Retain, "C16.len.retain")
	}
	v.Observe("size", uint64(size))
	v.Observe("b0", uint64(enc[0]))
}

// ---------- helpers ----------

// c16dirtyPool makes the next encoder draw a scratch buffer whose first bytes hold
// arbitrary left-overs of an earlier packet (the encode buffers are pooled and never
// cleared): what is emitted must not depend on them.
func c16dirtyPool(v *verifrt.T) {
	d := make([]byte, MaxMessageSize)
	copy(d, v.Bytes(40, "stale"))
	if !v.Symbolic() {
		// natively earlier runs in the same process have left buffers in the pool; take them
		// out so that the stale one is what the next encoder gets (sync.Pool serves the
		// per-P private slot first). Under the executor every path starts with an empty pool.
		for i := 0; i < 16; i++ {
			buffers.Get()
		}
	}
	buffers.Put(&byteBuffer{buf: d})
}

func symBytes(v *verifrt.T, name string) []byte {
	n := v.Choice(v.Bound("strlen")+1, name+"_len")
	return v.Bytes(n, name)
}

// c16writer records how a packet reaches the connection: the transports below the encoder
// (listener.Conn, the WebSocket adapter) are atomic per Write call only, so a packet handed
// over in two calls can be torn by a concurrent writer.
type c16writer struct {
	bytes.Buffer
	calls int
}

func (w *c16writer) Write(p []byte) (int, error) {
	w.calls++
	return w.Buffer.Write(p)
}

func encB(v *verifrt.T, m Message, id string) []byte {
	var w c16writer
	_, err := m.EncodeTo(&w)
	v.Assert(err == nil, id+".encode-ok")
	v.Assert(w.calls == 1, id+".one-write-per-packet")
	return w.Bytes()
}

func decB(v *verifrt.T, b []byte, id string) Message {
	m, err := DecodePacket(bytes.NewReader(b), MaxMessageSize)
	v.Assert(err == nil, id+".decode-ok")
	return m
}

func refW(v *verifrt.T, p packets.ControlPacket, id string) []byte {
	var w bytes.Buffer
	err := p.Write(&w)
	v.Assert(err == nil, id+".ref-encode-ok")
	return w.Bytes()
}

func refR(v *verifrt.T, b []byte, id string) packets.ControlPacket {
	p, err := packets.ReadPacket(bytes.NewReader(b))
	v.Assert(err == nil, id+".ref-decode-ok")
	return p
}

func obsBytes(v *verifrt.T, label string, b []byte) {
	var h uint64 = uint64(len(b))
	for _, x := range b {
		h = h*131 + uint64(x)
	}
	v.Observe(label, h)
}

// ---------- CONNECT ----------

func VerifC16Connect(v *verifrt.T) {
	c16dirtyPool(v)
	c := &Connect{
		ProtoName:      symBytes(v, "proto"),
		Version:        v.U8("ver"),
		UsernameFlag:   v.Bool("uf"),
		PasswordFlag:   v.Bool("pf"),
		WillRetainFlag: v.Bool("wr"),
		WillQOS:        v.U8("wq"),
		WillFlag:       v.Bool("wf"),
		CleanSeshFlag:  v.Bool("cs"),
		KeepAlive:      v.U16("ka"),
		ClientID:       symBytes(v, "cid"),
	}
	v.Assume(c.WillQOS <= 2)
	if c.WillFlag {
		c.WillTopic = symBytes(v, "wt")
		c.WillMessage = symBytes(v, "wm")
	}
	if c.UsernameFlag {
		c.Username = symBytes(v, "un")
	}
	if c.PasswordFlag {
		c.Password = symBytes(v, "pw")
	}
	e := encB(v, c, "C16.connect")
	v.Reach("connect-encoded")
	obsBytes(v, "enc", e)

	// round trip through the broker's own decoder
	d := decB(v, e, "C16.connect").(*Connect)
	v.Assert(bytes.Equal(d.ProtoName, c.ProtoName), "C16.connect.rt.proto")
	v.Assert(d.Version == c.Version, "C16.connect.rt.version")
	v.Assert(d.UsernameFlag == c.UsernameFlag, "C16.connect.rt.uflag")
	v.Assert(d.PasswordFlag == c.PasswordFlag, "C16.connect.rt.pflag")
	v.Assert(d.WillRetainFlag == c.WillRetainFlag, "C16.connect.rt.wretain")
	v.Assert(d.WillQOS == c.WillQOS, "C16.connect.rt.willqos")
	v.Assert(d.WillFlag == c.WillFlag, "C16.connect.rt.wflag")
	v.Assert(d.CleanSeshFlag == c.CleanSeshFlag, "C16.connect.rt.clean")
	v.Assert(d.KeepAlive == c.KeepAlive, "C16.connect.rt.keepalive")
	v.Assert(bytes.Equal(d.ClientID, c.ClientID), "C16.connect.rt.clientid")
	v.Assert(bytes.Equal(d.WillTopic, c.WillTopic), "C16.connect.rt.willtopic")
	v.Assert(bytes.Equal(d.WillMessage, c.WillMessage), "C16.connect.rt.willmsg")
	v.Assert(bytes.Equal(d.Username, c.Username), "C16.connect.rt.username")
	v.Assert(bytes.Equal(d.Password, c.Password), "C16.connect.rt.password")
	v.Observe("d.willqos", uint64(d.WillQOS))

	// the independent implementation writes the same bytes ...
	p := packets.NewControlPacket(packets.Connect).(*packets.ConnectPacket)
	p.ProtocolName = string(c.ProtoName)
	p.ProtocolVersion = c.Version
	p.CleanSession = c.CleanSeshFlag
	p.WillFlag = c.WillFlag
	p.WillQos = c.WillQOS
	p.WillRetain = c.WillRetainFlag
	p.UsernameFlag = c.UsernameFlag
	p.PasswordFlag = c.PasswordFlag
	p.Keepalive = c.KeepAlive
	p.ClientIdentifier = string(c.ClientID)
	p.WillTopic = string(c.WillTopic)
	p.WillMessage = c.WillMessage
	p.Username = string(c.Username)
	p.Password = c.Password
	r := refW(v, p, "C16.connect")
	v.Assert(bytes.Equal(e, r), "C16.connect.bytes-vs-reference")

	// ... and what it writes is decoded by the broker to the same fields
	a := decB(v, r, "C16.connect.accept").(*Connect)
	v.Assert(a.WillQOS == c.WillQOS, "C16.connect.accept.willqos")
	v.Assert(a.KeepAlive == c.KeepAlive && a.Version == c.Version, "C16.connect.accept.scalars")
	v.Assert(a.WillFlag == c.WillFlag && a.UsernameFlag == c.UsernameFlag && a.PasswordFlag == c.PasswordFlag &&
		a.WillRetainFlag == c.WillRetainFlag && a.CleanSeshFlag == c.CleanSeshFlag, "C16.connect.accept.flags")
	v.Assert(bytes.Equal(a.ProtoName, c.ProtoName) && bytes.Equal(a.ClientID, c.ClientID) && bytes.Equal(a.WillTopic, c.WillTopic) &&
		bytes.Equal(a.WillMessage, c.WillMessage) && bytes.Equal(a.Username, c.Username) && bytes.Equal(a.Password, c.Password), "C16.connect.accept.strings")
}

// ---------- PUBLISH ----------

func VerifC16Publish(v *verifrt.T) {
	c16dirtyPool(v)
	m := &Publish{
		Header:    Header{DUP: v.Bool("dup"), Retain: v.Bool("retain"), QOS: v.U8("qos")},
		Topic:     symBytes(v, "topic"),
		Payload:   symBytes(v, "payload"),
		MessageID: v.U16("mid"),
	}
	v.Assume(m.QOS <= 2)
	if m.QOS == 0 {
		m.MessageID = 0 // message id is present iff QoS > 0
	}
	e := encB(v, m, "C16.publish")
	v.Reach("publish-encoded")
	obsBytes(v, "enc", e)
	d := decB(v, e, "C16.publish").(*Publish)
	v.Assert(d.DUP == m.DUP && d.Retain == m.Retain && d.QOS == m.QOS, "C16.publish.rt.header")
	v.Assert(bytes.Equal(d.Topic, m.Topic), "C16.publish.rt.topic")
	v.Assert(bytes.Equal(d.Payload, m.Payload), "C16.publish.rt.payload")
	v.Assert(d.MessageID == m.MessageID, "C16.publish.rt.mid")

	p := packets.NewControlPacket(packets.Publish).(*packets.PublishPacket)
	p.Dup, p.Retain, p.Qos = m.DUP, m.Retain, m.QOS
	p.TopicName = string(m.Topic)
	p.MessageID = m.MessageID
	p.Payload = m.Payload
	r := refW(v, p, "C16.publish")
	v.Assert(bytes.Equal(e, r), "C16.publish.bytes-vs-reference")
	q := refR(v, e, "C16.publish").(*packets.PublishPacket)
	v.Assert(q.Dup == m.DUP && q.Retain == m.Retain && q.Qos == m.QOS, "C16.publish.emit.header")
	v.Assert(q.TopicName == string(m.Topic) && bytes.Equal(q.Payload, m.Payload) && q.MessageID == m.MessageID, "C16.publish.emit.fields")
}

// ---------- packets that carry only a message id ----------

func VerifC16Acks(v *verifrt.T) {
	c16dirtyPool(v)
	mid := v.U16("mid")
	k := v.Choice(5, "kind")
	var m Message
	var p packets.ControlPacket
	switch k {
	case 0:
		m = &Puback{MessageID: mid}
		x := packets.NewControlPacket(packets.Puback).(*packets.PubackPacket)
		x.MessageID = mid
		p = x
	case 1:
		m = &Pubrec{MessageID: mid}
		x := packets.NewControlPacket(packets.Pubrec).(*packets.PubrecPacket)
		x.MessageID = mid
		p = x
	case 2:
		m = &Pubrel{MessageID: mid, Header: Header{QOS: 1}}
		x := packets.NewControlPacket(packets.Pubrel).(*packets.PubrelPacket)
		x.MessageID = mid
		p = x
	case 3:
		m = &Pubcomp{MessageID: mid}
		x := packets.NewControlPacket(packets.Pubcomp).(*packets.PubcompPacket)
		x.MessageID = mid
		p = x
	case 4:
		m = &Unsuback{MessageID: mid}
		x := packets.NewControlPacket(packets.Unsuback).(*packets.UnsubackPacket)
		x.MessageID = mid
		p = x
	}
	e := encB(v, m, "C16.ack")
	v.Reach("ack-encoded")
	obsBytes(v, "enc", e)
	r := refW(v, p, "C16.ack")
	v.Assert(bytes.Equal(e, r), "C16.ack.bytes-vs-reference")
	d := decB(v, r, "C16.ack")
	v.Assert(d.Type() == m.Type(), "C16.ack.type")
	var got uint16
	switch x := d.(type) {
	case *Puback:
		got = x.MessageID
	case *Pubrec:
		got = x.MessageID
	case *Pubrel:
		got = x.MessageID
		v.Assert(x.Header.QOS == 1 && !x.Header.DUP && !x.Header.Retain, "C16.ack.pubrel-header")
	case *Pubcomp:
		got = x.MessageID
	case *Unsuback:
		got = x.MessageID
	}
	v.Assert(got == mid, "C16.ack.rt.mid")
	q := refR(v, e, "C16.ack")
	v.Assert(q.Details().MessageID == mid, "C16.ack.emit.mid")
}

// ---------- PUBREL with arbitrary header (round trip only) ----------

func VerifC16Pubrel(v *verifrt.T) {
	c16dirtyPool(v)
	m := &Pubrel{MessageID: v.U16("mid"), Header: Header{DUP: v.Bool("dup"), Retain: v.Bool("retain"), QOS: v.U8("qos")}}
	v.Assume(m.Header.QOS <= 2)
	e := encB(v, m, "C16.pubrel")
	v.Reach("pubrel-encoded")
	d := decB(v, e, "C16.pubrel").(*Pubrel)
	v.Assert(d.MessageID == m.MessageID, "C16.pubrel.rt.mid")
	v.Assert(d.Header.DUP == m.Header.DUP && d.Header.Retain == m.Header.Retain && d.Header.QOS == m.Header.QOS, "C16.pubrel.rt.header")
}

// ---------- CONNACK / empty packets ----------

func VerifC16Small(v *verifrt.T) {
	c16dirtyPool(v)
	k := v.Choice(4, "kind")
	switch k {
	case 0:
		m := &Connack{ReturnCode: v.U8("rc")}
		e := encB(v, m, "C16.connack")
		d := decB(v, e, "C16.connack").(*Connack)
		v.Assert(d.ReturnCode == m.ReturnCode, "C16.connack.rt")
		p := packets.NewControlPacket(packets.Connack).(*packets.ConnackPacket)
		p.ReturnCode = m.ReturnCode
		r := refW(v, p, "C16.connack")
		v.Assert(bytes.Equal(e, r), "C16.connack.bytes-vs-reference")
		q := refR(v, e, "C16.connack").(*packets.ConnackPacket)
		v.Assert(q.ReturnCode == m.ReturnCode && !q.SessionPresent, "C16.connack.emit")
		obsBytes(v, "enc", e)
	case 1:
		e := encB(v, &Pingreq{}, "C16.pingreq")
		v.Assert(bytes.Equal(e, refW(v, packets.NewControlPacket(packets.Pingreq), "C16.pingreq")), "C16.pingreq.bytes-vs-reference")
		_, ok := decB(v, e, "C16.pingreq").(*Pingreq)
		v.Assert(ok, "C16.pingreq.rt")
	case 2:
		e := encB(v, &Pingresp{}, "C16.pingresp")
		v.Assert(bytes.Equal(e, refW(v, packets.NewControlPacket(packets.Pingresp), "C16.pingresp")), "C16.pingresp.bytes-vs-reference")
		_, ok := decB(v, e, "C16.pingresp").(*Pingresp)
		v.Assert(ok, "C16.pingresp.rt")
		_, ok = refR(v, e, "C16.pingresp").(*packets.PingrespPacket)
		v.Assert(ok, "C16.pingresp.emit")
	case 3:
		e := encB(v, &Disconnect{}, "C16.disconnect")
		v.Assert(bytes.Equal(e, refW(v, packets.NewControlPacket(packets.Disconnect), "C16.disconnect")), "C16.disconnect.bytes-vs-reference")
		_, ok := decB(v, e, "C16.disconnect").(*Disconnect)
		v.Assert(ok, "C16.disconnect.rt")
	}
	v.Reach("small-done")
}

// ---------- SUBSCRIBE / UNSUBSCRIBE / SUBACK ----------

func VerifC16Subscribe(v *verifrt.T) {
	c16dirtyPool(v)
	n := v.Choice(v.Bound("tuples")+1, "n")
	m := &Subscribe{Header: Header{QOS: 1}, MessageID: v.U16("mid")}
	p := packets.NewControlPacket(packets.Subscribe).(*packets.SubscribePacket)
	p.MessageID = m.MessageID
	for i := 0; i < n; i++ {
		t := TopicQOSTuple{Qos: v.U8("q", i), Topic: symBytes(v, "t"+string(rune('0'+i)))}
		v.Assume(t.Qos <= 2)
		m.Subscriptions = append(m.Subscriptions, t)
		p.Topics = append(p.Topics, string(t.Topic))
		p.Qoss = append(p.Qoss, t.Qos)
	}
	e := encB(v, m, "C16.subscribe")
	v.Reach("subscribe-encoded")
	obsBytes(v, "enc", e)
	r := refW(v, p, "C16.subscribe")
	v.Assert(bytes.Equal(e, r), "C16.subscribe.bytes-vs-reference")
	d := decB(v, r, "C16.subscribe.accept").(*Subscribe)
	v.Assert(d.MessageID == m.MessageID, "C16.subscribe.accept.mid")
	v.Assert(d.QOS == 1 && !d.DUP && !d.Retain, "C16.subscribe.accept.header")
	v.Assert(len(d.Subscriptions) == n, "C16.subscribe.accept.count")
	for i := 0; i < n && i < len(d.Subscriptions); i++ {
		v.Assert(d.Subscriptions[i].Qos == m.Subscriptions[i].Qos && bytes.Equal(d.Subscriptions[i].Topic, m.Subscriptions[i].Topic), "C16.subscribe.accept.tuple")
	}
}

func VerifC16Unsubscribe(v *verifrt.T) {
	c16dirtyPool(v)
	n := v.Choice(v.Bound("tuples")+1, "n")
	m := &Unsubscribe{Header: Header{QOS: 1}, MessageID: v.U16("mid")}
	p := packets.NewControlPacket(packets.Unsubscribe).(*packets.UnsubscribePacket)
	p.MessageID = m.MessageID
	for i := 0; i < n; i++ {
		t := TopicQOSTuple{Topic: symBytes(v, "t"+string(rune('0'+i)))}
		m.Topics = append(m.Topics, t)
		p.Topics = append(p.Topics, string(t.Topic))
	}
	e := encB(v, m, "C16.unsubscribe")
	v.Reach("unsubscribe-encoded")
	obsBytes(v, "enc", e)
	r := refW(v, p, "C16.unsubscribe")
	v.Assert(bytes.Equal(e, r), "C16.unsubscribe.bytes-vs-reference")
	d := decB(v, r, "C16.unsubscribe.accept").(*Unsubscribe)
	v.Assert(d.MessageID == m.MessageID, "C16.unsubscribe.accept.mid")
	v.Assert(len(d.Topics) == n, "C16.unsubscribe.accept.count")
	for i := 0; i < n && i < len(d.Topics); i++ {
		v.Assert(bytes.Equal(d.Topics[i].Topic, m.Topics[i].Topic), "C16.unsubscribe.accept.topic")
	}
}

func VerifC16Suback(v *verifrt.T) {
	c16dirtyPool(v)
	n := v.Choice(v.Bound("tuples")+2, "n")
	m := &Suback{MessageID: v.U16("mid")}
	for i := 0; i < n; i++ {
		m.Qos = append(m.Qos, v.U8("q", i))
	}
	e := encB(v, m, "C16.suback")
	v.Reach("suback-encoded")
	obsBytes(v, "enc", e)
	p := packets.NewControlPacket(packets.Suback).(*packets.SubackPacket)
	p.MessageID = m.MessageID
	p.ReturnCodes = m.Qos
	r := refW(v, p, "C16.suback")
	v.Assert(bytes.Equal(e, r), "C16.suback.bytes-vs-reference")
	d := decB(v, e, "C16.suback").(*Suback)
	v.Assert(d.MessageID == m.MessageID && bytes.Equal(d.Qos, m.Qos), "C16.suback.rt")
	q := refR(v, e, "C16.suback").(*packets.SubackPacket)
	v.Assert(q.MessageID == m.MessageID && bytes.Equal(q.ReturnCodes, m.Qos), "C16.suback.emit")
}

// ---------- size safety at the encoding boundaries ----------

var c16Lens = []int{0, 1, 125, 126, 127, 128, 129, 16380, 16381, 16382, 16383, 16384, 16385, 65520, 65524, 65525, 65526, 65527, 65528, 65529, 65530, 65531, 65532, 65533, 65534, 65535, 65536, 65537, 70000}

// VerifC16Size: PUBLISH with payload lengths at every remaining-length and
// buffer boundary: EncodeTo never panics; it either refuses with
// ErrMessageTooLarge or writes a packet whose declared length is exact and
// which decodes to the same topic / payload length.
func VerifC16Size(v *verifrt.T) {
	c16dirtyPool(v)
	n := c16Lens[v.Choice(len(c16Lens), "plen_idx")]
	m := &Publish{
		Header:    Header{DUP: v.Bool("dup"), Retain: v.Bool("retain"), QOS: v.U8("qos")},
		Topic:     symBytes(v, "topic"),
		Payload:   make([]byte, n),
		MessageID: v.U16("mid"),
	}
	v.Assume(m.QOS <= 2)
	if n > 0 {
		m.Payload[0] = v.U8("first")
		m.Payload[n-1] = v.U8("last")
	}
	var w c16writer
	var err error
	panicked := v.Try(func() { _, err = m.EncodeTo(&w) })
	v.Reach("size-encoded")
	v.Assert(!panicked, "C16.size.encode-no-panic")
	body := 2 + len(m.Topic) + n
	if m.QOS > 0 {
		body += 2
	}
	v.Observe("errnil", uint64(verifrt.B2U(err == nil)))
	if err != nil {
		v.Assert(err == ErrMessageTooLarge, "C16.size.error-kind")
		v.Assert(w.Len() == 0, "C16.size.nothing-written-on-error")
		v.Assert(body > 65535-5, "C16.size.refused-only-when-too-large")
		return
	}
	v.Assert(w.calls == 1, "C16.size.one-write-per-packet")
	e := w.Bytes()
	ref := refEncodeLength(uint32(body))
	v.Assert(len(e) == 1+len(ref)+body, "C16.size.total-length")
	d, derr := DecodePacket(bytes.NewReader(e), MaxMessageSize)
	v.Assert(derr == nil, "C16.size.decode-ok")
	p := d.(*Publish)
	v.Assert(len(p.Payload) == n && bytes.Equal(p.Topic, m.Topic) && p.QOS == m.QOS, "C16.size.rt")
	if n > 0 {
		v.Assert(p.Payload[0] == m.Payload[0] && p.Payload[n-1] == m.Payload[n-1], "C16.size.rt.ends")
	}
}
