package async

// Self-test of the thread machinery (not a property check): four textbook programs whose
// verdicts are known. Run by tools/selftest.sh.

import (
	"sync"

	"github.com/emitter-io/emitter/internal/verifrt"
)

type stCounter struct {
	mu sync.Mutex
	n  int
}

// locked increments: always 2, no race, no deadlock
func VerifSelfLocked(v *verifrt.T) {
	c := &stCounter{}
	inc := func() { c.mu.Lock(); c.n++; c.mu.Unlock() }
	v.Threads(2, inc, inc)
	v.Reach("done")
	v.Assert(c.n == 2, "SELFTEST.locked.sum")
}

// unlocked increments: a data race
func VerifSelfRacy(v *verifrt.T) {
	c := &stCounter{}
	inc := func() { c.n++ }
	v.Threads(2, inc, inc)
	v.Reach("done")
	v.Assert(c.n >= 1, "SELFTEST.racy.sum")
}

// check-then-act with the lock released in between: both threads may claim the slot
func VerifSelfAtomicity(v *verifrt.T) {
	c := &stCounter{}
	claims := 0
	var cm sync.Mutex
	claim := func() {
		c.mu.Lock()
		free := c.n == 0
		c.mu.Unlock()
		if free {
			c.mu.Lock()
			c.n = 1
			c.mu.Unlock()
			cm.Lock()
			claims++
			cm.Unlock()
		}
	}
	v.Threads(1, claim, claim)
	v.Reach("done")
	v.Assert(claims == 1, "SELFTEST.atomicity.one-claim")
}

// lock-order inversion: a deadlock under one preemption
func VerifSelfDeadlock(v *verifrt.T) {
	var a, b sync.Mutex
	t1 := func() { a.Lock(); b.Lock(); b.Unlock(); a.Unlock() }
	t2 := func() { b.Lock(); a.Lock(); a.Unlock(); b.Unlock() }
	v.Threads(1, t1, t2)
	v.Reach("done")
}
