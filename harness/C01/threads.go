package message

import (
	"github.com/emitter-io/emitter/internal/verifrt"
)

func c01tFilter(v *verifrt.T, i int) Ssid {
	n := 1 + v.Bound("tdepth") // contract + tdepth levels (thorough tier: 0..tdepth)
	if v.Bound("tvarlen") > 0 {
		n = 1 + v.Choice(v.Bound("tdepth")+1, "flen", i)
	}
	f := make(Ssid, n)
	for k := range f {
		f[k] = v.U32("w", i, k)
		v.Assume(f[k] != share)
	}
	v.Assume(f[0] != wildcard && f[0] != multiWildcard)
	return f
}

// VerifC01Threads: concurrent callers. One subscriber holds a stable subscription; one
// thread subscribes and unsubscribes a second subscriber, another adds a third, and a
// third thread looks the published channel up twice while that happens. Under every
// schedule within the preemption bound each lookup returns the stable subscriber exactly
// when its filter matches, never a subscriber whose only filter does not match, and no
// duplicates; afterwards the index answers like the sequential reference and is
// reclaimed completely.
func VerifC01Threads(v *verifrt.T) {
	mqtt := v.Bool("mqtt")
	var t *Trie
	if mqtt {
		t = NewTrieMQTT()
	} else {
		t = NewTrie()
	}
	f0, f1, f2 := c01tFilter(v, 0), c01tFilter(v, 1), c01tFilter(v, 2)
	m := 2 + v.Choice(v.Bound("tchan"), "clen")
	c := make(Ssid, m)
	for k := range c {
		c[k] = v.U32("c", k)
		v.Assume(c[k] != wildcard && c[k] != multiWildcard && c[k] != share)
	}
	if v.Bound("tvarlen") == 0 {
		// quick tier: one contract (the other contracts' branches never meet this channel)
		v.Assume(f0[0] == c[0] && f1[0] == c[0] && f2[0] == c[0])
	}
	s0, s1, s2 := c01subs[0], c01subs[1], c01subs[2]
	t.Subscribe(f0, s0)
	const nlook = 2
	var got [nlook][3]bool
	var size [nlook]int
	churn := func() {
		t.Subscribe(f1, s1)
		t.Unsubscribe(f1, s1)
	}
	add := func() { t.Subscribe(f2, s2) }
	look := func() {
		for i := 0; i < nlook; i++ {
			res := t.Lookup(c, nil)
			got[i] = [3]bool{res.Contains(s0), res.Contains(s1), res.Contains(s2)}
			size[i] = res.Size()
		}
	}
	v.Threads(v.Bound("preemptions"), churn, add, look)
	v.Reach("threads-done")
	m0, m1, m2 := c01match(mqtt, f0, c), c01match(mqtt, f1, c), c01match(mqtt, f2, c)
	for i := 0; i < nlook; i++ {
		v.Assert(got[i][0] == m0, "C01.threads.stable-subscriber-receives-iff-matching")
		v.Assert(verifrt.Implies(got[i][1], m1), "C01.threads.nobody-else-receives")
		v.Assert(verifrt.Implies(got[i][2], m2), "C01.threads.nobody-else-receives")
		v.Assert(size[i] == c01b2i(got[i][:]), "C01.threads.no-unknown-or-duplicate-receiver")
	}
	res := t.Lookup(c, nil)
	v.Assert(res.Contains(s0) == m0 && !res.Contains(s1) && res.Contains(s2) == m2, "C01.threads.final-state-is-sequential")
	v.Assert(t.Count() == 2, "C01.count-is-number-of-distinct-live-pairs")
	t.Unsubscribe(f0, s0)
	t.Unsubscribe(f2, s2)
	v.Assert(t.Count() == 0, "C01.count-zero-after-removing-everything")
	v.Assert(c01nodes(t.root) == 1 && t.root.subs.Size() == 0, "C01.index-empty-after-removing-everything")
	v.Observe("first", uint64(size[0]))
}
