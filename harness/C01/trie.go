package message

import (
	"github.com/emitter-io/emitter/internal/verifrt"
)

// ---- subscribers ----

type c01sub struct{ id string }

func (s *c01sub) ID() string           { return s.id }
func (s *c01sub) Type() SubscriberType { return SubscriberDirect }
func (s *c01sub) Send(*Message) error  { return nil }

var c01subs = []*c01sub{{"s0"}, {"s1"}, {"s2"}}

type c01op struct {
	sub bool
	who int
	f   Ssid
}

// ---- reference matcher (straight-line boolean algebra over symbolic words) ----

func c01same(a, b Ssid) bool {
	if len(a) != len(b) {
		return false
	}
	r := true
	for k := range a {
		r = verifrt.And(r, a[k] == b[k])
	}
	return r
}

// c01match: does filter f match channel c under the mode (sequences of levels).
func c01match(mqtt bool, f, c Ssid) bool {
	n, m := len(f), len(c)
	prefix := func(k int) bool { // first k levels of f match level-wise
		r := true
		for i := 0; i < k; i++ {
			r = verifrt.And(r, verifrt.Or(f[i] == c[i], f[i] == wildcard))
		}
		return r
	}
	if !mqtt {
		if n > m {
			return false
		}
		return prefix(n)
	}
	res := false
	if n == m {
		res = prefix(n)
	}
	if n >= 1 && m >= n {
		// trailing '#': one or more further levels
		res = verifrt.Or(res, verifrt.And(f[n-1] == multiWildcard, prefix(n-1)))
	}
	return res
}

func c01isShare(f Ssid) bool {
	if len(f) < 3 {
		return false
	}
	return f[1] == share
}

// live(i): op i is a subscribe and no later op on the same (filter, subscriber) pair removed it
func c01live(ops []c01op, i int) bool {
	if !ops[i].sub {
		return false
	}
	r := true
	for j := i + 1; j < len(ops); j++ {
		if !ops[j].sub && ops[j].who == ops[i].who {
			r = verifrt.And(r, verifrt.Not(c01same(ops[j].f, ops[i].f)))
		}
	}
	return r
}

// number of distinct live pairs after ops[:n]
func c01count(ops []c01op) uint32 {
	var cnt uint32
	for i := range ops {
		// i is the last op on its pair, and it is a subscribe
		if !ops[i].sub {
			continue
		}
		last := true
		for j := i + 1; j < len(ops); j++ {
			if ops[j].who == ops[i].who {
				last = verifrt.And(last, verifrt.Not(c01same(ops[j].f, ops[i].f)))
			}
		}
		cnt += verifrt.B2U(last)
	}
	return cnt
}

func c01drawFilter(v *verifrt.T, i int) Ssid {
	n := 1 + v.Choice(v.Bound("depth")+1, "flen", i) // contract + 0..depth levels
	f := make(Ssid, n)
	for k := range f {
		f[k] = v.U32("w", i, k)
	}
	// the contract word comes from the key, never from user text
	v.Assume(f[0] != wildcard && f[0] != multiWildcard && f[0] != share)
	return f
}

func c01nodes(n *node) int {
	c := 1
	for _, ch := range n.children {
		c += c01nodes(ch)
	}
	return c
}

// VerifC01History: any history of subscribe / unsubscribe by three subscribers over
// arbitrary filters (arbitrary 32-bit words: literal, '+', '#', share prefixes,
// repeated and permuted levels all arise as equality patterns chosen by the solver),
// both matcher modes; then a lookup on an arbitrary static channel is compared with
// the reference matcher, Count with the number of distinct live pairs, and after
// unsubscribing everything the index must be empty (root node only).
func VerifC01History(v *verifrt.T) {
	mqtt := v.Bool("mqtt")
	var t *Trie
	if mqtt {
		t = NewTrieMQTT()
	} else {
		t = NewTrie()
	}
	nops := v.Bound("ops")
	var ops []c01op
	for i := 0; i < nops; i++ {
		o := c01op{sub: v.Choice(2, "kind", i) == 0, who: v.Choice(v.Bound("subs"), "who", i), f: c01drawFilter(v, i)}
		if i == 0 {
			// an unsubscribe on the empty index is covered by later positions; subscribers are interchangeable
			v.Assume(o.sub && o.who == 0)
		}
		ops = append(ops, o)
		if o.sub {
			t.Subscribe(o.f, c01subs[o.who])
		} else {
			t.Unsubscribe(o.f, c01subs[o.who])
		}
		v.Assert(uint32(t.Count()) == c01count(ops), "C01.count-is-number-of-distinct-live-pairs")
	}
	c01lookupAndCheck(v, t, mqtt, ops, 2+v.Choice(v.Bound("chan"), "clen"))
}

// c01lookupAndCheck publishes to an arbitrary static channel of m words and compares the
// result with the reference; then removes everything and checks reclamation.
func c01lookupAndCheck(v *verifrt.T, t *Trie, mqtt bool, ops []c01op, m int) {
	// the published channel: contract + levels, static (no reserved words)
	c := make(Ssid, m)
	for k := range c {
		c[k] = v.U32("c", k)
		v.Assume(c[k] != wildcard && c[k] != multiWildcard && c[k] != share)
	}
	// make the share-group pick replayable: the pooled scratch state carries the random word
	temp.Put(&tempState{list: newSubscribers(), rand: v.U32("rand")})
	res := t.Lookup(c, nil)
	v.Reach("looked-up")

	nsub := v.Bound("subs")
	recv := make([]bool, nsub)
	for s := 0; s < nsub; s++ {
		recv[s] = res.Contains(c01subs[s])
	}
	v.Assert(res.Size() == c01b2i(recv), "C01.no-unknown-receiver")
	// per op: live, direct match, share match
	live := make([]bool, len(ops))
	dmatch := make([]bool, len(ops))
	smatch := make([]bool, len(ops))
	for i, o := range ops {
		live[i] = c01live(ops, i)
		sh := c01isShare(o.f)
		dmatch[i] = verifrt.And(live[i], verifrt.And(verifrt.Not(sh), c01match(mqtt, o.f, c)))
		if len(o.f) >= 3 {
			smatch[i] = verifrt.And(verifrt.And(live[i], sh), verifrt.And(o.f[0] == c[0], c01match(mqtt, o.f[3:], c[1:])))
		}
	}
	for s := 0; s < nsub; s++ {
		direct, viaShare := false, false
		for i, o := range ops {
			if o.who == s {
				direct = verifrt.Or(direct, dmatch[i])
				viaShare = verifrt.Or(viaShare, smatch[i])
			}
		}
		if recv[s] {
			v.Assert(verifrt.Or(direct, viaShare), "C01.nobody-else-receives")
		} else {
			v.Assert(verifrt.Not(direct), "C01.every-matching-subscriber-receives")
		}
	}
	// every share group with a matching member has a receiving member
	for i, o := range ops {
		if len(o.f) < 3 {
			continue
		}
		served := false
		for j, p := range ops {
			if len(p.f) >= 3 && recv[p.who] {
				served = verifrt.Or(served, verifrt.And(smatch[j], p.f[2] == o.f[2]))
			}
		}
		v.Assert(verifrt.Implies(smatch[i], served), "C01.one-member-per-matching-share-group")
	}
	// reclamation: remove every subscription that was ever made
	for _, o := range ops {
		if o.sub {
			t.Unsubscribe(o.f, c01subs[o.who])
		}
	}
	v.Assert(t.Count() == 0, "C01.count-zero-after-removing-everything")
	v.Assert(c01nodes(t.root) == 1 && t.root.subs.Size() == 0, "C01.index-empty-after-removing-everything")
	v.Observe("size", uint64(res.Size()))
}

func c01b2i(b []bool) int {
	n := 0
	for _, x := range b {
		if x {
			n++
		}
	}
	return n
}

// VerifC01Share: share groups with deeper member filters than the history entry reaches:
// two or three subscriptions of the shape contract / $share / group / level [/ level] with
// arbitrary group and level words (so members of one group or of two, literal and wildcard
// levels, '#' in mqtt mode all occur), optionally one ordinary subscription beside them, then a
// publish on contract / level / level. Exactly one member of every group with a matching
// member receives, nobody without a matching filter does, and the index is reclaimed.
func VerifC01Share(v *verifrt.T) {
	mqtt := v.Bool("mqtt")
	var t *Trie
	if mqtt {
		t = NewTrieMQTT()
	} else {
		t = NewTrie()
	}
	contract := v.U32("contract")
	v.Assume(contract != wildcard && contract != multiWildcard && contract != share)
	n := v.Bound("shares")
	var ops []c01op
	for i := 0; i < n; i++ {
		levels := 1 + v.Choice(2, "slevels", i)
		f := Ssid{contract, share, v.U32("group", i)}
		for k := 0; k < levels; k++ {
			f = append(f, v.U32("sw", i, k))
		}
		if i == n-1 && v.Bool("last-is-ordinary") {
			f = append(Ssid{contract}, f[3:]...)
		}
		o := c01op{sub: true, who: i % v.Bound("subs"), f: f}
		ops = append(ops, o)
		t.Subscribe(o.f, c01subs[o.who])
		v.Assert(uint32(t.Count()) == c01count(ops), "C01.count-is-number-of-distinct-live-pairs")
	}
	c01lookupAndCheck(v, t, mqtt, ops, 3)
}
