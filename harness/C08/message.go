package message

// VerifHolds counts the trie nodes whose subscriber set contains sub
// (harness-only accessor, injected by overlay).
func (t *Trie) VerifHolds(sub Subscriber) int {
	t.RLock()
	defer t.RUnlock()
	return verifHolds(t.root, sub)
}

func verifHolds(n *node, sub Subscriber) int {
	c := 0
	if n.subs.Contains(sub) {
		c++
	}
	for _, ch := range n.children {
		c += verifHolds(ch, sub)
	}
	return c
}

// VerifNodes returns the number of nodes of the trie.
func (t *Trie) VerifNodes() int {
	t.RLock()
	defer t.RUnlock()
	return verifNodes(t.root)
}

func verifNodes(n *node) int {
	c := 1
	for _, ch := range n.children {
		c += verifNodes(ch)
	}
	return c
}
