package broker

import (
	"bytes"
	"time"
	"encoding/json"

	"github.com/emitter-io/stats"
	"github.com/kelindar/rate"

	"github.com/emitter-io/emitter/internal/config"
	"github.com/emitter-io/emitter/internal/event"
	"github.com/emitter-io/emitter/internal/message"
	"github.com/emitter-io/emitter/internal/network/mqtt"
	"github.com/emitter-io/emitter/internal/provider/contract"
	"github.com/emitter-io/emitter/internal/provider/storage"
	"github.com/emitter-io/emitter/internal/provider/usage"
	"github.com/emitter-io/emitter/internal/security"
	"github.com/emitter-io/emitter/internal/security/hash"
	"github.com/emitter-io/emitter/internal/security/license"
	"github.com/emitter-io/emitter/internal/service/keygen"
	"github.com/emitter-io/emitter/internal/service/link"
	"github.com/emitter-io/emitter/internal/service/pubsub"
	"github.com/emitter-io/emitter/internal/verifrt"
)

type c08env struct {
	svc    *Service
	ciph   *hcipher
	ps     *pubsub.Service
	trie   *message.Trie
	notify *hnotifier
	rw     string // key name: read/write on everything
	will   string // key name: symbolic permissions, used for the will
	willPerm uint8
}

func c08new(v *verifrt.T) *c08env {
	e := &c08env{ciph: &hcipher{}, notify: &hnotifier{}, trie: message.NewTrie()}
	lic := &license.V1{User: 7, Sign: 9}
	contracts := contract.NewSingleContractProvider(lic, usage.NewNoop())
	e.svc = &Service{contracts: contracts, subscriptions: e.trie, License: lic, Config: &config.Config{}, measurer: stats.NewNoop()}
	e.svc.keygen = keygen.New(e.ciph, contracts, e.svc)
	e.ps = pubsub.New(e.svc, storage.NewNoop(), e.notify, e.trie)
	e.svc.pubsub = e.ps
	mk := func(perm uint8) string {
		k := security.Key(make([]byte, 24))
		k.SetMaster(1)
		k.SetContract(7)
		k.SetSignature(9)
		k.SetPermissions(perm)
		k.SetTarget("#/")
		return e.ciph.add(k)
	}
	e.rw = mk(security.AllowReadWrite | security.AllowPresence)
	e.willPerm = v.U8("willperm")
	e.will = mk(e.willPerm)
	return e
}

func c08same(a, b message.Ssid) bool {
	if len(a) != len(b) {
		return false
	}
	r := true
	for k := range a {
		r = verifrt.And(r, a[k] == b[k])
	}
	return r
}

type c08op struct {
	kind int
	f    message.Ssid
}

// number of distinct ssids connection A still holds after ops (set semantics)
func c08held(ops []c08op) uint32 {
	var cnt uint32
	for i := range ops {
		if ops[i].kind != 0 {
			continue
		}
		last := true
		for j := i + 1; j < len(ops); j++ {
			last = verifrt.And(last, verifrt.Not(c08same(ops[j].f, ops[i].f)))
		}
		cnt += verifrt.B2U(last)
	}
	return cnt
}

// VerifC08Close: a history of subscriptions on connection A (arbitrary ssids, a link
// auto-subscription), one subscription on B, a last will watched by C; then A ends.
func VerifC08Close(v *verifrt.T) {
	e := c08new(v)
	a, asock := hconn(e.svc, 0)
	b, _ := hconn(e.svc, 1)
	c, csock := hconn(e.svc, 2)
	e.svc.connections = 3
	// C watches the will channel, B holds one arbitrary subscription
	v.Assert(e.ps.OnSubscribe(c, []byte(e.rw+"/will/")) == nil, "C08.env.watcher-subscribed")
	bssid := message.Ssid{7, v.U32("b", 0), v.U32("b", 1)}
	e.ps.Subscribe(b, &event.Subscription{Conn: b.luid, Ssid: bssid, Channel: []byte("b/")})
	// A never sends SUBSCRIBE / PUBLISH on a real channel in this entry (its subscriptions are
	// made at the index level or by a link), so it may never have been counted for usage
	a.tracked = uint32(v.Choice(2, "tracked"))
	willFlag := v.Bool("willflag")
	// the will channel may be a wildcard pattern under the watched channel: nothing can be
	// published to a pattern, so such a will never fires
	willWild := v.Bool("will-on-a-pattern")
	willTopic := e.will + "/will/"
	if willWild {
		willTopic = e.will + "/will/+/"
	}
	a.onConnect(&mqtt.Connect{WillFlag: willFlag, WillTopic: []byte(willTopic), WillMessage: []byte("gone"), Username: []byte("alice")})

	n := v.Bound("ops")
	var ops []c08op
	linked := false
	for i := 0; i < n; i++ {
		kind := v.Choice(3, "kind", i)
		switch kind {
		case 0, 1:
			f := message.Ssid{7}
			m := 1 + v.Choice(v.Bound("depth"), "len", i)
			for k := 0; k < m; k++ {
				f = append(f, v.U32("w", i, k))
			}
			ops = append(ops, c08op{kind: kind, f: f})
			ev := &event.Subscription{Conn: a.luid, Ssid: f, Channel: []byte("x/")}
			if kind == 0 {
				e.ps.Subscribe(a, ev)
			} else {
				e.ps.Unsubscribe(a, ev)
			}
		case 2:
			req := link.Request{Name: "l1", Key: e.rw, Channel: "linked/", Subscribe: true}
			var payload []byte
			if v.Symbolic() {
				hLinkReq = req
			} else {
				payload, _ = json.Marshal(&req)
			}
			_, ok := link.New(e.svc, e.ps).OnRequest(a, payload)
			v.Assert(ok, "C08.env.link-created")
			linked = true
			// the link's auto-subscription is the ordinary subscription to linked/
			ops = append(ops, c08op{kind: 0, f: message.Ssid{7, hash.OfString("linked")}})
		}
	}
	heldBefore := e.trie.VerifHolds(a)
	unsubsBefore := len(e.notify.unsubs)
	watcherBefore := len(csock.writes)
	a.Close()
	v.Reach("closed")
	v.Assert(e.trie.VerifHolds(a) == 0, "C08.close.no-subscription-left")
	found := e.trie.Lookup(bssid, nil)
	v.Assert(found.Contains(b) && e.trie.VerifHolds(b) == 1 && e.trie.VerifHolds(c) == 1, "C08.close.others-untouched")
	v.Assert(e.svc.connections == 2, "C08.close.connection-counted-out-once")
	v.Assert(asock.closed, "C08.close.socket-closed")
	// presence watchers are told once per subscription the connection still held
	held := int(0)
	_ = held
	wantUnsubs := c08held(ops)
	_ = linked
	v.Assert(uint32(len(e.notify.unsubs)-unsubsBefore) == wantUnsubs, "C08.close.one-unsubscribe-notification-per-held-subscription")
	v.Assert(uint32(heldBefore) == wantUnsubs, "C08.close.index-matches-held-subscriptions")
	// last will: exactly once iff supplied with a key that allows publishing to the will channel
	wills := len(csock.writes) - watcherBefore
	wantWill := verifrt.And(willFlag, verifrt.And(e.willPerm&security.AllowWrite != 0, e.willPerm&security.AllowExtend == 0))
	wantWill = verifrt.And(wantWill, !willWild)
	if wills == 0 {
		v.Assert(verifrt.Not(wantWill), "C08.close.will-published")
	} else {
		v.Assert(wills == 1, "C08.close.will-at-most-once")
		v.Assert(wantWill, "C08.close.will-only-with-flag-and-write-permission")
		p, err := mqtt.DecodePacket(bytes.NewReader(csock.writes[len(csock.writes)-1]), 65536)
		v.Assert(err == nil && string(p.(*mqtt.Publish).Payload) == "gone", "C08.close.will-payload")
	}
	v.Observe("held", uint64(heldBefore))
}

// VerifC08CloseMany: connection A holds three subscriptions with arbitrary two-word channels
// (so the words may fold to the same per-connection counter bucket pairwise or all three),
// optionally takes one of them back, and ends: nothing of A is left in the index, one
// 'unsubscribe' notification per subscription still held, B untouched. A fixed-shape history
// one operation longer than the quick bound of VerifC08Close.
func VerifC08CloseMany(v *verifrt.T) {
	e := c08new(v)
	a, asock := hconn(e.svc, 0)
	b, _ := hconn(e.svc, 1)
	e.svc.connections = 2
	bssid := message.Ssid{8, 1, 2} // another contract: B only witnesses that nothing else is touched
	e.ps.Subscribe(b, &event.Subscription{Conn: b.luid, Ssid: bssid, Channel: []byte("b/")})
	a.onConnect(&mqtt.Connect{Username: []byte("alice")})
	var ops []c08op
	for i := 0; i < 3; i++ {
		f := message.Ssid{7, v.U32("w", i, 0), v.U32("w", i, 1)}
		ops = append(ops, c08op{kind: 0, f: f})
		e.ps.Subscribe(a, &event.Subscription{Conn: a.luid, Ssid: f, Channel: []byte("x/")})
	}
	if u := v.Choice(2, "takes-back") * 3; u < 3 { // 0: the first one is taken back; 1 (u=3): none
		ops = append(ops, c08op{kind: 1, f: ops[u].f})
		e.ps.Unsubscribe(a, &event.Subscription{Conn: a.luid, Ssid: ops[u].f, Channel: []byte("x/")})
	}
	wantUnsubs := c08held(ops)
	heldBefore := e.trie.VerifHolds(a)
	unsubsBefore := len(e.notify.unsubs)
	v.Assert(uint32(heldBefore) == wantUnsubs, "C08.many.index-matches-held-subscriptions")
	a.Close()
	v.Reach("closed-with-three")
	v.Assert(e.trie.VerifHolds(a) == 0, "C08.many.no-subscription-left")
	v.Assert(uint32(len(e.notify.unsubs)-unsubsBefore) == wantUnsubs, "C08.many.one-unsubscribe-notification-per-held-subscription")
	found := e.trie.Lookup(bssid, nil)
	v.Assert(found.Contains(b) && e.trie.VerifHolds(b) == 1, "C08.many.others-untouched")
	v.Assert(asock.closed, "C08.many.socket-closed")
	v.Observe("held", uint64(heldBefore))
}

// VerifC08Process: the real Process loop on a client byte stream (CONNECT, SUBSCRIBE,
// SUBSCRIBE|UNSUBSCRIBE built with the real encoder) that is cut at any byte offset,
// ends with DISCONNECT, or carries one corrupted byte.
func VerifC08Process(v *verifrt.T) {
	e := c08new(v)
	a, asock := hconn(e.svc, 0)
	a.limit = new(rate.Limiter)
	hLimitScript = nil
	throttled := v.Bool("throttled")
	if throttled {
		// the read limiter allows one packet per 80 ms: the check right after a packet is
		// refused, the one 50 ms later too, the third passes (natively the real limiter does
		// exactly this; a throttled client is delayed, its packets are not lost)
		if v.Symbolic() {
			hLimitScript = []bool{false, true, true, false, true, true, false, true, true, false, true, true, false}
		} else {
			a.limit = rate.New(1, 80*time.Millisecond)
		}
	}
	b, _ := hconn(e.svc, 1)
	e.svc.connections = 2
	e.ps.Subscribe(b, &event.Subscription{Conn: b.luid, Ssid: message.Ssid{7, 1, 2}, Channel: []byte("b/")})
	var stream bytes.Buffer
	(&mqtt.Connect{ProtoName: []byte("MQTT"), Version: 4, ClientID: []byte("c")}).EncodeTo(&stream)
	(&mqtt.Subscribe{Header: mqtt.Header{QOS: 1}, MessageID: 1, Subscriptions: []mqtt.TopicQOSTuple{{Topic: []byte(e.rw + "/a/")}, {Topic: []byte(e.rw + "/b/c/")}}}).EncodeTo(&stream)
	if v.Bool("unsub") {
		(&mqtt.Unsubscribe{Header: mqtt.Header{QOS: 1}, MessageID: 2, Topics: []mqtt.TopicQOSTuple{{Topic: []byte(e.rw + "/a/")}}}).EncodeTo(&stream)
	} else {
		(&mqtt.Subscribe{Header: mqtt.Header{QOS: 1}, MessageID: 2, Subscriptions: []mqtt.TopicQOSTuple{{Topic: []byte(e.rw + "/a/")}}}).EncodeTo(&stream)
	}
	data := append([]byte(nil), stream.Bytes()...)
	ending := v.Choice(3, "ending")
	switch ending {
	case 0: // the socket closes at an arbitrary byte
		cut := v.Choice(len(data)+1, "cut")
		data = data[:cut]
	case 1: // clean DISCONNECT
		data = append(data, 0xe0, 0x00)
	case 2: // one corrupted byte anywhere
		pos := v.Choice(len(data), "pos")
		data[pos] = v.U8("junk")
	}
	asock.in = data
	panicked := v.Try(func() { a.Process() })
	v.Reach("process-returned")
	v.Assert(!panicked, "C08.process.panic-contained")
	v.Assert(e.trie.VerifHolds(a) == 0, "C08.process.no-subscription-left")
	v.Assert(e.trie.VerifHolds(b) == 1, "C08.process.others-untouched")
	v.Assert(asock.closed, "C08.process.socket-closed")
	v.Assert(e.svc.connections == 1, "C08.process.connection-counted-out-once")
	v.Assert(e.trie.VerifNodes() == 4, "C08.process.index-back-to-baseline")
	if ending == 1 {
		// a complete session: CONNACK, SUBACK, SUBACK or UNSUBACK - every request answered, throttled or not
		v.Assert(len(asock.writes) == 3, "C08.process.every-request-of-a-complete-session-answered")
	}
	v.Observe("acks", uint64(len(asock.writes)))
	v.Observe("unread", uint64(len(asock.in)))
}
