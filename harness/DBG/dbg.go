package broker

import (
	"github.com/emitter-io/emitter/internal/verifrt"
)

type dbgR struct {
	buf  []byte
	r, w int
	last int
}

func (b *dbgR) reset(buf []byte) {
	*b = dbgR{buf: buf, last: -1}
}

func VerifDBG(v *verifrt.T) {
	buf := make([]byte, 100)
	v.Assert(len(buf) == 100, "dbg.make")
	r := new(dbgR)
	r.reset(buf)
	v.Assert(r.last == -1, "dbg.last")
	v.Assert(len(r.buf) == 100, "dbg.reset100")
	buf2 := make([]byte, 65536)
	r.reset(buf2)
	v.Assert(len(r.buf) == 65536, "dbg.reset64k")
}
