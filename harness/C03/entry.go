package broker

import (
	"encoding/json"
	"errors"
	"time"

	"github.com/emitter-io/emitter/internal/event"
	"github.com/emitter-io/emitter/internal/message"
	"github.com/emitter-io/emitter/internal/network/mqtt"
	"github.com/emitter-io/emitter/internal/provider/contract"
	"github.com/emitter-io/emitter/internal/provider/storage"
	"github.com/emitter-io/emitter/internal/provider/usage"
	"github.com/emitter-io/emitter/internal/security"
	"github.com/emitter-io/emitter/internal/security/license"
	"github.com/emitter-io/emitter/internal/service/cluster"
	"github.com/emitter-io/emitter/internal/service/history"
	"github.com/emitter-io/emitter/internal/service/keygen"
	"github.com/emitter-io/emitter/internal/service/link"
	"github.com/emitter-io/emitter/internal/service/presence"
	"github.com/emitter-io/emitter/internal/service/pubsub"
	"github.com/emitter-io/emitter/internal/verifrt"
)

// request bodies travel as JSON; under the executor the decoded struct is handed over
var (
	c03eHistory  history.Request
	c03ePresence presence.Request
	c03eLink     link.Request
)

func c03eUnmarshal(data []byte, out interface{}) error {
	switch p := out.(type) {
	case *history.Request:
		*p = c03eHistory
	case *presence.Request:
		p.Key, p.Channel, p.Status, p.Changes = c03ePresence.Key, c03ePresence.Channel, c03ePresence.Status, c03ePresence.Changes
	case *link.Request:
		*p = c03eLink
	default:
		return errors.New("stub: unexpected json target")
	}
	return nil
}

type c03eStore struct {
	storage.Noop
	queries int
}

func (s *c03eStore) Query(message.Ssid, time.Time, time.Time, message.ID, int) (message.Frame, error) {
	s.queries++
	return nil, nil
}

type c03eSurvey struct{}

func (c03eSurvey) Query(string, []byte) (message.Awaiter, error) { return nil, errors.New("no cluster") }

// VerifC03Entry: every request handler demands exactly the permission the operation needs:
// read to subscribe and unsubscribe, write to publish, load for a history request, presence
// for a presence request, read for a link's automatic subscription - with a key that is
// valid in every other respect and whose permission byte is arbitrary; and a key that
// carries the extend permission is not usable for any of them directly.
func VerifC03Entry(v *verifrt.T) {
	ciph := &hcipher{}
	trie := message.NewTrie()
	lic := &license.V1{User: 7, Sign: 9}
	contracts := contract.NewSingleContractProvider(lic, usage.NewNoop())
	store := &c03eStore{}
	svc := &Service{contracts: contracts, subscriptions: trie, License: lic}
	svc.keygen = keygen.New(ciph, contracts, svc)
	ps := pubsub.New(svc, store, &hnotifier{}, trie)
	svc.pubsub = ps
	k := security.Key(make([]byte, 24))
	k.SetMaster(1)
	k.SetContract(7)
	k.SetSignature(9)
	perm := v.U8("perm")
	k.SetPermissions(perm)
	k.SetTarget("a/")
	name := ciph.add(k)
	conn, _ := hconn(svc, 0)
	has := func(p uint8) bool { return perm&p == p }
	ext := has(security.AllowExtend)
	ssid := message.NewSsid(7, security.ParseChannel([]byte(name+"/a/")).Query)

	switch v.Choice(6, "entry") {
	case 0: // SUBSCRIBE
		err := ps.OnSubscribe(conn, []byte(name+"/a/"))
		v.Assert((err == nil) == (has(security.AllowRead) && !ext), "C03.entry.subscribe-needs-read")
		v.Assert((trie.Count() == 1) == (err == nil), "C03.entry.subscribed-iff-accepted")
		v.Assert((store.queries > 0) == (err == nil && has(security.AllowLoad)), "C03.entry.history-on-subscribe-needs-load")
	case 1: // UNSUBSCRIBE (of a subscription made at the index level)
		err := ps.OnUnsubscribe(conn, []byte(name+"/a/"))
		v.Assert((err == nil) == (has(security.AllowRead) && !ext), "C03.entry.unsubscribe-needs-read")
	case 2: // PUBLISH
		err := ps.OnPublish(conn, &mqtt.Publish{Topic: []byte(name + "/a/"), Payload: []byte("x")})
		v.Assert((err == nil) == (has(security.AllowWrite) && !ext), "C03.entry.publish-needs-write")
	case 3: // history request
		h := history.New(svc, store)
		req := history.Request{Key: name, Channel: name + "/a/"}
		var payload []byte
		if v.Symbolic() {
			c03eHistory = req
		} else {
			payload, _ = json.Marshal(&req)
		}
		_, ok := h.OnRequest(conn, payload)
		v.Assert(ok == has(security.AllowLoad), "C03.entry.history-needs-load")
		v.Assert((store.queries > 0) == ok, "C03.entry.history-queried-iff-allowed")
	case 4: // presence request
		p := presence.New(svc, ps, c03eSurvey{}, trie)
		req := presence.Request{Key: name, Channel: "a/", Status: true}
		var payload []byte
		if v.Symbolic() {
			c03ePresence = req
		} else {
			payload, _ = json.Marshal(&req)
		}
		_, ok := p.OnRequest(conn, payload)
		v.Assert(ok == (has(security.AllowPresence) && !ext), "C03.entry.presence-needs-presence")
	case 5: // link with automatic subscription
		l := link.New(svc, ps)
		req := link.Request{Name: "x", Key: name, Channel: "a/", Subscribe: true}
		var payload []byte
		if v.Symbolic() {
			c03eLink = req
		} else {
			payload, _ = json.Marshal(&req)
		}
		l.OnRequest(conn, payload)
		v.Assert((trie.Count() == 1) == (has(security.AllowRead) && !ext), "C03.entry.link-subscription-needs-read")
	}
	_ = ssid
	v.Reach("entry-point-called")
}

// VerifC03Spelling: a key is the exact string that was issued. The ban list is keyed by the
// presented string, so any second spelling that still decrypts would walk past a ban:
// padded, re-cased or otherwise altered presentations of a valid key (which the license
// cipher - here the stand-in that knows exactly one string - does not decrypt) are refused,
// banned or not; the issued spelling is allowed exactly when it is not banned.
func VerifC03Spelling(v *verifrt.T) {
	lic := &license.V1{User: 7, Sign: 9}
	contracts := contract.NewSingleContractProvider(lic, usage.NewNoop())
	k := security.Key(make([]byte, 24))
	k.SetMaster(1)
	k.SetContract(7)
	k.SetSignature(9)
	k.SetPermissions(security.AllowReadWrite)
	k.SetTarget("#/")
	ciph := &c03strict{key: k}
	svc := &Service{contracts: contracts}
	svc.keygen = keygen.New(ciph, contracts, svc)
	banned := v.Bool("banned")
	st := event.NewState("")
	if banned {
		b := event.Ban("K")
		st.Add(&b)
	}
	sw := new(cluster.Swarm)
	verifrt.SetUnexported(sw, "state", st)
	svc.cluster = sw
	spellings := []string{"K", "K ", " K", "K\n", "K\t", "\tK", "k", "K\x00", "KK"}
	pres := spellings[v.Choice(len(spellings), "spelling")]
	ch := security.ParseChannel([]byte(pres + "/a/"))
	_, _, allowed := svc.Authorize(ch, security.AllowRead)
	v.Reach("spelling-presented")
	v.Assert(allowed == (pres == "K" && !banned), "C03.only-the-issued-spelling-and-only-unbanned")
}

// c03strict: the license cipher decrypts exactly the issued string (C20: every other string
// of another length or alphabet is rejected, and distinct strings give distinct keys)
type c03strict struct{ key security.Key }

func (c *c03strict) DecryptKey(b []byte) (security.Key, error) {
	if string(b) != "K" {
		return nil, errors.New("cipher: the key provided is not valid")
	}
	return append(security.Key(nil), c.key...), nil
}
func (c *c03strict) EncryptKey(k security.Key) (string, error) { return "K", nil }
