package broker

import (
	"errors"
	"time"

	"github.com/emitter-io/emitter/internal/event"
	"github.com/emitter-io/emitter/internal/provider/contract"
	"github.com/emitter-io/emitter/internal/provider/usage"
	"github.com/emitter-io/emitter/internal/security"
	"github.com/emitter-io/emitter/internal/security/license"
	"github.com/emitter-io/emitter/internal/service/cluster"
	"github.com/emitter-io/emitter/internal/service/keygen"
	"github.com/emitter-io/emitter/internal/verifrt"
)

// c03cipher stands in for the license cipher: the presented key string "K"
// decrypts to the harness's key bytes; cipher round trips are C20's subject.
type c03cipher struct {
	key    security.Key
	broken bool // the string does not decrypt under the license
}

func (c *c03cipher) DecryptKey(b []byte) (security.Key, error) {
	if c.broken {
		return nil, errors.New("cipher: the key provided is not valid")
	}
	return append(security.Key(nil), c.key...), nil
}
func (c *c03cipher) EncryptKey(k security.Key) (string, error) { return "K", nil }

var c03letters = [4]byte{'a', 'b', 'c', '+'}

type c03path struct {
	lv   []uint8 // selector per level: 0..2 literal a/b/c, 3 = '+'
	hash bool    // trailing "#/"
}

func c03draw(v *verifrt.T, name string, minLevels int) c03path {
	n := minLevels + v.Choice(v.Bound("depth")+1-minLevels, name+"n")
	p := c03path{hash: v.Bool(name + "hash")}
	for i := 0; i < n; i++ {
		p.lv = append(p.lv, v.U8(name+"l", i)&3)
	}
	return p
}

func (p c03path) text() []byte {
	var b []byte
	for _, s := range p.lv {
		b = append(b, c03letters[s], '/')
	}
	if p.hash {
		b = append(b, '#', '/')
	}
	return b
}

// covers transcribes the statement: equal levels where the target has literals,
// any level where it has '+', the same depth for exact targets and at least that
// depth for '#/' targets, request wildcards only where the target is itself
// wildcard or beyond its depth.
func c03covers(t, r c03path) bool {
	n, m := len(t.lv), len(r.lv)
	if t.hash {
		if m < n {
			return false
		}
	} else {
		// exact target: same depth, and a trailing '#' in the request is a further (wildcard) level
		if m != n || r.hash {
			return false
		}
	}
	ok := true
	for i := 0; i < n; i++ {
		lit := t.lv[i] != 3
		ok = verifrt.And(ok, verifrt.Or(verifrt.Not(lit), r.lv[i] == t.lv[i]))
	}
	return ok
}

// VerifC03: Service.Authorize over symbolic key fields, license, clock, target and
// requested channel; both directions asserted separately.
func VerifC03(v *verifrt.T) {
	lic := &license.V1{User: v.U32("lic_contract"), Sign: v.U32("lic_sign")}
	contracts := contract.NewSingleContractProvider(lic, usage.NewNoop())
	key := security.Key(make([]byte, 24))
	key.SetSalt(v.U16("salt"))
	key.SetMaster(v.U16("master"))
	key.SetContract(v.U32("contract"))
	key.SetSignature(v.U32("sign"))
	key.SetPermissions(v.U8("perm"))
	exp := v.U32("exp") // seconds after 2010; 0 = never
	key[20], key[21], key[22], key[23] = byte(exp>>24), byte(exp>>16), byte(exp>>8), byte(exp)

	target := c03draw(v, "t", 0)
	if len(target.lv) == 0 {
		v.Assume(target.hash) // the empty target is written "#/"
	}
	terr := key.SetTarget(string(target.text()))
	v.Assert(terr == nil, "C03.target-accepted")

	ciph := &c03cipher{key: key, broken: v.Bool("undecryptable")}
	svc := &Service{contracts: contracts}
	svc.keygen = keygen.New(ciph, contracts, svc)
	// the ban list: a real Swarm over a real replicated state that holds a ban for the
	// presented key string, for another key string, or none
	banned := false
	if v.Bool("clustered") {
		st := event.NewState("")
		switch v.Choice(3, "ban") {
		case 1:
			b := event.Ban("K")
			st.Add(&b)
			banned = true
		case 2:
			b := event.Ban("K2")
			st.Add(&b)
		}
		sw := new(cluster.Swarm)
		verifrt.SetUnexported(sw, "state", st)
		svc.cluster = sw
	}

	req := c03draw(v, "r", 1)
	need := v.U8("need")
	text := append([]byte("K/"), req.text()...)
	ch := security.ParseChannel(text)
	v.Assert(ch.ChannelType != security.ChannelInvalid, "C03.request-parses")
	t0 := time.Now().Unix()
	_, _, allowed := svc.Authorize(ch, need)
	t1 := time.Now().Unix()
	v.Reach("authorized-called")

	// the clock is arbitrary (symbolic) but the key does not expire while the call is in progress
	at := int64(exp) + 1262304000
	v.Assume(exp == 0 || at < t0 || at > t1)
	expired := verifrt.And(exp != 0, at < t0)
	valid := verifrt.And(verifrt.Not(ciph.broken), verifrt.Not(expired))
	valid = verifrt.And(valid, !banned)
	valid = verifrt.And(valid, verifrt.And(key.Contract() == lic.User, key.Signature() == lic.Sign))
	valid = verifrt.And(valid, key.Master() == 1)
	valid = verifrt.And(valid, key.Permissions()&need == need)
	want := verifrt.And(valid, c03covers(target, req))
	if allowed {
		v.Assert(want, "C03.over")
	} else {
		v.Assert(verifrt.Not(want), "C03.under")
	}
	v.Observe("allowed", uint64(verifrt.B2U(allowed)))
}
