package contract

import (
	"sync"

	"github.com/emitter-io/emitter/internal/network/http"
	"github.com/emitter-io/emitter/internal/provider/usage"
	"github.com/emitter-io/emitter/internal/security"
	"github.com/emitter-io/emitter/internal/verifrt"
)

// the contract directory behind the HTTP provider: answers with the contract as it is upstream
type c03dir struct {
	upstream contract
	calls    int
}

func (d *c03dir) Get(url string, output interface{}, headers ...http.HeaderValue) ([]byte, error) {
	d.calls++
	*(output.(*contract)) = d.upstream
	return nil, nil
}

func (d *c03dir) Post(url string, body []byte, output interface{}, headers ...http.HeaderValue) ([]byte, error) {
	return nil, nil
}

// VerifC03Contract: "belongs to an allowed contract with the same signature and master id".
// (1) contract.Validate with every field of contract and key arbitrary: true exactly when id,
// signature and master id agree and the contract's state is "allowed" (not unknown, not
// refused). (2) the HTTP contract provider: a contract fetched and cached in one state, the
// directory then changes its state (same signature and master id), the periodic refresh
// runs: what Get hands to Authorize afterwards validates keys exactly when the directory
// says allowed now.
func VerifC03Contract(v *verifrt.T) {
	c := &contract{ID: v.U32("cid"), MasterID: v.U16("cmaster"), Signature: v.U32("csign"), State: v.U8("cstate")}
	key := security.Key(make([]byte, 24))
	key.SetContract(v.U32("kid"))
	key.SetMaster(v.U16("kmaster"))
	key.SetSignature(v.U32("ksign"))
	want := verifrt.And(verifrt.And(c.ID == key.Contract(), c.MasterID == key.Master()), verifrt.And(c.Signature == key.Signature(), c.State == ContractStateAllowed))
	v.Assert(c.Validate(key) == want, "C03.contract.validate-iff-same-identity-and-allowed")
	v.Reach("validated")

	// the provider with a cache
	id := uint32(77)
	dir := &c03dir{upstream: contract{ID: id, MasterID: 1, Signature: 5, State: v.U8("state1")}}
	p := &HTTPContractProvider{url: "http://directory/", cache: new(sync.Map), usage: usage.NewNoop(), http: dir}
	k2 := security.Key(make([]byte, 24))
	k2.SetContract(id)
	k2.SetMaster(1)
	k2.SetSignature(5)
	first, ok := p.Get(id)
	v.Assert(ok && first.Validate(k2) == (dir.upstream.State == ContractStateAllowed), "C03.contract.fetched-state-decides")
	dir.upstream.State = v.U8("state2")
	p.refresh()
	second, ok := p.Get(id)
	v.Assert(ok && second.Validate(k2) == (dir.upstream.State == ContractStateAllowed), "C03.contract.refreshed-state-decides")
	v.Reach("refreshed")
}
