package listener

import (
	"bytes"
	"context"
	"io"
	"net"
	"sync"
	"time"

	"github.com/kelindar/rate"

	"github.com/emitter-io/emitter/internal/verifrt"
)

var c17v *verifrt.T

// ---- environment stand-ins (symbolic executor only) ----

var c17limitCalls int

// the write rate limiter may throttle any call
func c17Limit(l *rate.Limiter) bool {
	c17limitCalls++
	return c17v.Bool("throttle", c17limitCalls)
}
func c17RateNew(r int, per time.Duration) *rate.Limiter { return new(rate.Limiter) }

var c17timer func()

// async.Repeat: runs the action once (as the real one does) and hands the periodic firing to the harness
func c17Repeat(ctx context.Context, interval time.Duration, action func()) context.CancelFunc {
	action()
	c17timer = action
	return func() {}
}

// ---- scripted socket: delivers the stream in arbitrary chunks ----

type c17sock struct {
	in     []byte
	chunk  int
	reads  int
	out    []byte
	writes int
	closed bool
}

func (s *c17sock) Read(p []byte) (int, error) {
	if len(s.in) == 0 {
		return 0, io.EOF
	}
	s.reads++
	n := 1 + c17v.Choice(s.chunk, "chunk", s.reads)
	if n > len(p) {
		n = len(p)
	}
	if n > len(s.in) {
		n = len(s.in)
	}
	copy(p, s.in[:n])
	s.in = s.in[n:]
	return n, nil
}
func (s *c17sock) Write(b []byte) (int, error) {
	s.writes++
	s.out = append(s.out, b...)
	return len(b), nil
}
func (s *c17sock) Close() error                       { s.closed = true; return nil }
func (s *c17sock) LocalAddr() net.Addr                { return nil }
func (s *c17sock) RemoteAddr() net.Addr               { return nil }
func (s *c17sock) SetDeadline(t time.Time) error      { return nil }
func (s *c17sock) SetReadDeadline(t time.Time) error  { return nil }
func (s *c17sock) SetWriteDeadline(t time.Time) error { return nil }

// VerifC17Read: the real Listener.serve runs its matchers (HTTP prefix tree, then
// any) over the sniffing connection; whichever listener gets the connection then reads
// exactly the bytes the client sent, whatever the socket chunking, the number of bytes
// the matchers peeked at and the reader's buffer sizes.
func VerifC17Read(v *verifrt.T) {
	c17v = v
	n := v.Choice(v.Bound("stream")+1, "len")
	stream := v.Bytes(n, "s")
	sock := &c17sock{in: append([]byte(nil), stream...), chunk: v.Bound("chunk")}
	m := &Listener{bufferSize: 4, errorHandler: func(error) bool { return true }, closing: make(chan struct{})}
	// the broker's own chain (HTTP methods, then anything), or two peeking matchers of equal
	// depth in front of the catch-all (the second one re-reads what the first one recorded)
	var ls []net.Listener
	if v.Bool("two-prefix-matchers") {
		ls = append(ls, m.Match(MatchPrefix("AB")), m.Match(MatchPrefix("CD")), m.Match(MatchAny()))
	} else {
		ls = append(ls, m.Match(MatchHTTP()), m.Match(MatchAny()))
	}
	var wg sync.WaitGroup
	wg.Add(1)
	m.serve(sock, m.closing, &wg)
	v.Reach("served")
	var conn net.Conn
	for _, l := range ls {
		select {
		case conn = <-l.(muxListener).connections:
		default:
		}
		if conn != nil {
			break
		}
	}
	v.Assert(conn != nil, "C17.read.connection-dispatched")
	var got []byte
	for i := 0; i < 4*(n+2); i++ {
		buf := make([]byte, 1+v.Choice(v.Bound("rbuf"), "rbuf", i))
		k, err := conn.Read(buf)
		got = append(got, buf[:k]...)
		if err != nil {
			break
		}
	}
	v.Assert(bytes.Equal(got, stream), "C17.read.bytes-unchanged-in-order-once")
	v.Observe("n", uint64(len(got)))
}

// VerifC17Write: writes through the rate-limited connection, with the limiter
// throttling any call and the timer flush firing between any two calls, reach the
// socket in order, once each; nothing stays queued after a final flush.
func VerifC17Write(v *verifrt.T) {
	c17v = v
	c17limitCalls = 0
	sock := &c17sock{}
	var conn *Conn
	if v.Symbolic() {
		conn = &Conn{socket: sock, reader: sniffer{source: sock}, limit: new(rate.Limiter)}
	} else {
		// natively the real limiter runs; its allowance is set before every Write so that it
		// answers what the executor's draw for that call says (rate 0: nothing accrues by itself)
		conn = &Conn{socket: sock, reader: sniffer{source: sock}, limit: rate.New(1, time.Second)}
		verifrt.SetUnexported(conn.limit, "rate", uint64(0))
		verifrt.SetUnexported(conn.limit, "max", uint64(1)<<62)
	}
	n := v.Bound("writes")
	var want []byte
	for i := 0; i < n; i++ {
		if v.Bool("timer", i) {
			conn.Flush() // the periodic flush
		}
		p := v.Bytes(1+v.Choice(2, "wlen", i), "w"+string(rune('0'+i)))
		want = append(want, p...)
		if !v.Symbolic() {
			verifrt.SetUnexported(conn.limit, "allowance", verifrt.IteU64(v.Bool("throttle", i+1), 0, uint64(time.Second)))
		}
		k, err := conn.Write(p)
		v.Assert(err == nil && k >= 0, "C17.write.accepted")
		v.Assert(bytes.Equal(append(append([]byte(nil), sock.out...), conn.writer.Bytes()...), want), "C17.write.socket-plus-queue-is-what-was-written")
	}
	conn.Flush()
	v.Reach("flushed")
	v.Assert(bytes.Equal(sock.out, want), "C17.write.bytes-unchanged-in-order-once")
	v.Assert(conn.Len() == 0, "C17.write.nothing-left-queued")
	v.Observe("out", uint64(len(sock.out)))
}
