package websocket

import (
	"bytes"
	"io"
	"net"
	"time"

	"github.com/emitter-io/emitter/internal/verifrt"
)

type c17msg struct {
	op   int
	data []byte
}

type c17reader struct {
	v    *verifrt.T
	data []byte
	id   int
	n    int
}

func (r *c17reader) Read(p []byte) (int, error) {
	if len(r.data) == 0 {
		return 0, io.EOF
	}
	r.n++
	k := 1 + r.v.Choice(2, "frag", r.id, r.n)
	if k > len(p) {
		k = len(p)
	}
	if k > len(r.data) {
		k = len(r.data)
	}
	copy(p, r.data[:k])
	r.data = r.data[k:]
	return k, nil
}

type c17writer struct {
	ws  *c17ws
	buf []byte
}

func (w *c17writer) Write(p []byte) (int, error) { w.buf = append(w.buf, p...); return len(p), nil }
func (w *c17writer) Close() error                { w.ws.sent = append(w.ws.sent, w.buf); return nil }

type c17ws struct {
	v    *verifrt.T
	msgs []c17msg
	next int
	sent [][]byte
	ops  []int
}

func (w *c17ws) NextReader() (int, io.Reader, error) {
	if w.next >= len(w.msgs) {
		return 0, nil, io.ErrUnexpectedEOF
	}
	m := w.msgs[w.next]
	w.next++
	return m.op, &c17reader{v: w.v, data: m.data, id: w.next}, nil
}
func (w *c17ws) NextWriter(t int) (io.WriteCloser, error) {
	w.ops = append(w.ops, t)
	return &c17writer{ws: w}, nil
}
func (w *c17ws) Close() error                       { return nil }
func (w *c17ws) LocalAddr() net.Addr                { return nil }
func (w *c17ws) RemoteAddr() net.Addr               { return nil }
func (w *c17ws) SetReadDeadline(t time.Time) error  { return nil }
func (w *c17ws) SetWriteDeadline(t time.Time) error { return nil }

// VerifC17WS: the WebSocket adapter turns a sequence of messages (data and control
// opcodes, empty messages, arbitrary fragment sizes) into exactly the concatenated
// payload of the data messages, and each Write into one binary message.
func VerifC17WS(v *verifrt.T) {
	ws := &c17ws{v: v}
	var want []byte
	n := v.Bound("messages")
	opcodes := []int{1, 2, 8, 9, 10}
	for i := 0; i < n; i++ {
		m := c17msg{op: opcodes[v.Choice(len(opcodes), "op", i)], data: v.Bytes(v.Choice(3, "mlen", i), "m"+string(rune('0'+i)))}
		ws.msgs = append(ws.msgs, m)
		if m.op == 1 || m.op == 2 {
			want = append(want, m.data...)
		}
	}
	t := newConn(ws)
	var got []byte
	for i := 0; i < 6*n+4; i++ {
		buf := make([]byte, 1+v.Choice(v.Bound("rbuf"), "rbuf", i))
		k, err := t.Read(buf)
		got = append(got, buf[:k]...)
		if err != nil {
			break
		}
	}
	v.Reach("ws-read")
	v.Assert(bytes.Equal(got, want), "C17.ws.read-bytes-unchanged-in-order-once")
	// writes: one binary message per call
	a, b := v.Bytes(v.Choice(3, "alen"), "a"), v.Bytes(1, "b")
	t.Write(a)
	t.Write(b)
	v.Assert(len(ws.sent) == 2 && bytes.Equal(ws.sent[0], a) && bytes.Equal(ws.sent[1], b), "C17.ws.one-binary-message-per-write")
	v.Assert(len(ws.ops) == 2 && ws.ops[0] == 2 && ws.ops[1] == 2, "C17.ws.binary-opcode")
	v.Observe("got", uint64(len(got)))
}
