package storage

import (
	"bytes"
	"time"

	"github.com/dgraph-io/badger/v3"

	"github.com/emitter-io/emitter/internal/message"
	"github.com/emitter-io/emitter/internal/security"
	"github.com/emitter-io/emitter/internal/verifrt"
)

// ---- a symbolic ordered store standing in for badger (symbolic executor only) ----

type c06entry struct {
	key     message.ID
	msg     message.Message
	expired bool
}

var (
	c06entries []c06entry
	c06iters   = map[*badger.Iterator]*int{}
	c06items   = map[*badger.Item]int{}
)

func c06View(db *badger.DB, fn func(tx *badger.Txn) error) error { return fn(new(badger.Txn)) }

func c06NewIterator(tx *badger.Txn, opt badger.IteratorOptions) *badger.Iterator {
	it := new(badger.Iterator)
	pos := len(c06entries)
	c06iters[it] = &pos
	return it
}

func c06skip(p *int) {
	for *p < len(c06entries) && c06entries[*p].expired {
		*p++
	}
}

func c06Seek(it *badger.Iterator, key []byte) {
	p := c06iters[it]
	*p = 0
	for *p < len(c06entries) && bytes.Compare(c06entries[*p].key, key) < 0 {
		*p++
	}
	c06skip(p)
}

func c06Valid(it *badger.Iterator) bool { return *c06iters[it] < len(c06entries) }
func c06Next(it *badger.Iterator) {
	p := c06iters[it]
	*p++
	c06skip(p)
}
func c06Close(it *badger.Iterator) {}
func c06Item(it *badger.Iterator) *badger.Item {
	item := new(badger.Item)
	c06items[item] = *c06iters[it]
	return item
}
func c06Key(item *badger.Item) []byte { return c06entries[c06items[item]].key }
func c06ValueCopy(item *badger.Item, dst []byte) ([]byte, error) {
	return []byte{byte(c06items[item])}, nil
}
func c06DecodeMessage(buf []byte) (message.Message, error) { return c06entries[buf[0]].msg, nil }

// ---- harness ----

const (
	c06wild = uint32(1815237614)
	c06multi = uint32(4285801373)
)

func c06match(q message.Ssid, e message.Ssid) bool {
	if len(q) > len(e) {
		return false
	}
	r := true
	for i := range q {
		r = verifrt.And(r, verifrt.Or(q[i] == e[i], verifrt.Or(q[i] == c06wild, q[i] == c06multi)))
	}
	return r
}

// VerifC06Query: N stored messages with arbitrary contract, channel words and
// second-resolution time (kept in key order, as the store keeps them), arbitrary
// expiry; an arbitrary query (filter words, window, limit, optional continuation id).
func VerifC06Query(v *verifrt.T) {
	n := v.Bound("entries")
	type ent struct {
		ssid    message.Ssid
		time    int64
		expired bool
	}
	ents := make([]ent, n)
	c06entries = nil
	for i := 0; i < n; i++ {
		depth := 2 + v.Choice(v.Bound("depth")-1, "depth", i)
		s := make(message.Ssid, depth)
		for k := range s {
			s[k] = v.U32("e", i, k)
			v.Assume(s[k] != c06wild && s[k] != c06multi) // stored channels are static
		}
		t := v.I64("t", i)
		v.Assume(t >= security.MinTime && t < security.MaxTime)
		ents[i] = ent{ssid: s, time: t, expired: v.Bool("expired", i)}
		id := message.NewID(s)
		id.SetTime(t)
		c06entries = append(c06entries, c06entry{key: id, msg: message.Message{ID: id, Channel: []byte("c/"), Payload: []byte{byte(i)}, TTL: 4294967294}, expired: ents[i].expired})
	}
	for i := 0; i+1 < n; i++ {
		v.Assume(bytes.Compare(c06entries[i].key, c06entries[i+1].key) < 0) // the store is ordered by key
	}
	// the query
	qd := 2 + v.Choice(v.Bound("depth")-1, "qdepth")
	q := make(message.Ssid, qd)
	for k := range q {
		q[k] = v.U32("q", k)
	}
	v.Assume(q[0] != c06wild && q[0] != c06multi && q[1] != c06wild && q[1] != c06multi) // contract and first level are literal
	from, until := v.I64("from"), v.I64("until")
	v.Assume(from >= 0 && from < security.MaxTime && until >= security.MinTime && until < security.MaxTime)
	limit := int(v.U8("limit"))
	cont := v.Choice(n+1, "continue") // n = no continuation id
	var startID message.ID
	if cont < n {
		startID = c06entries[cont].key
		// the id a client continues from is one a page of this very query ended with
		v.Assume(verifrt.And(c06match(q, ents[cont].ssid), verifrt.And(ents[cont].time >= from, ents[cont].time <= until)))
	}

	var s *SSD
	if v.Symbolic() {
		s = &SSD{db: new(badger.DB)}
	} else {
		mem := NewInMemory(nil)
		mem.Configure(nil)
		s = &mem.SSD
		for _, e := range c06entries {
			if !e.expired {
				s.storeFrame(message.Frame{e.msg})
			}
		}
	}
	res := s.lookup(lookupQuery{Ssid: q, From: from, Until: until, StartFromID: startID, Limit: limit})
	v.Reach("looked-up")
	res.Limit(limit) // what Query does with the local part
	// which entries came back
	got := make([]bool, n)
	for _, m := range res {
		idx := int(m.Payload[0])
		v.Assert(!got[idx], "C06.no-duplicate")
		got[idx] = true
	}
	for i := 0; i+1 < len(res); i++ {
		v.Assert(res[i].Time() <= res[i+1].Time(), "C06.non-decreasing-time")
	}
	v.Assert(len(res) <= limit, "C06.at-most-limit")
	// expected: the `limit` most recent of the matching, live, in-window entries (key order = newest first)
	var newer uint32
	for i := 0; i < n; i++ {
		m := verifrt.And(c06match(q, ents[i].ssid), verifrt.And(ents[i].time >= from, ents[i].time <= until))
		m = verifrt.And(m, verifrt.Not(ents[i].expired))
		if cont < n {
			m = verifrt.And(m, i > cont) // a continuation page starts strictly after the given id
			if cont >= i {
				m = false
			}
			// an expired (vanished) continuation id ends the listing
		}
		want := verifrt.And(m, newer < uint32(limit))
		if got[i] {
			v.Assert(m, "C06.only-matching-live-in-window-same-contract")
			if cont == n {
				v.Assert(want, "C06.only-the-most-recent")
			} else {
				v.Assert(want, "C06.continuation.only-the-most-recent-after-the-id")
			}
		} else if cont == n {
			v.Assert(verifrt.Not(want), "C06.all-of-the-most-recent")
		} else {
			// a continuation page is the next `limit` matching live messages after the id - whether
			// or not the message the id names is still there (it may have expired since the last
			// page, and on a peer answering the survey it never was)
			v.Assert(verifrt.Not(want), "C06.continuation.all-of-the-most-recent-after-the-id")
		}
		newer += verifrt.B2U(m)
	}
	v.Observe("n", uint64(len(res)))
}

// ---- the cluster half of a query: local lookup + survey of the peers ----

type c06awaiter struct{ resp [][]byte }

func (a *c06awaiter) Gather(time.Duration) [][]byte { return a.resp }

type c06survey struct {
	resp    [][]byte
	queries int
}

func (s *c06survey) Query(string, []byte) (message.Awaiter, error) {
	s.queries++
	return &c06awaiter{resp: s.resp}, nil
}

// the frame a peer answered with (message.DecodeFrame is snappy + reflection)
var c06peerFrame message.Frame

func c06DecodeFrame(buf []byte) (message.Frame, error) {
	return append(message.Frame(nil), c06peerFrame...), nil
}

func c06Marshal(v interface{}) ([]byte, error) { return []byte{1}, nil }

// VerifC06Cluster: Storage.Query on a clustered broker is the local lookup plus what the
// peers answer to the survey, cut to the `limit` most recent. Local and peer messages on one
// channel with arbitrary times: the result is exactly the `limit` most recent of both
// together, in non-decreasing time - whether or not the local store alone could fill the page.
func VerifC06Cluster(v *verifrt.T) {
	ssid := message.Ssid{7, 11}
	nl, np := v.Bound("local"), v.Bound("peer")
	type ent struct {
		t    int64
		peer bool
	}
	var all []ent
	c06entries = nil
	var local []message.Message
	for i := 0; i < nl; i++ {
		t := v.I64("lt", i)
		v.Assume(t >= security.MinTime && t < security.MaxTime)
		id := message.NewID(ssid)
		id.SetTime(t)
		m := message.Message{ID: id, Channel: []byte("c/"), Payload: []byte{byte(i)}, TTL: 4294967294}
		local = append(local, m)
		c06entries = append(c06entries, c06entry{key: id, msg: m})
		all = append(all, ent{t: t})
	}
	for i := 0; i+1 < nl; i++ {
		v.Assume(bytes.Compare(c06entries[i].key, c06entries[i+1].key) < 0) // the store is ordered by key
	}
	c06peerFrame = nil
	for i := 0; i < np; i++ {
		t := v.I64("pt", i)
		v.Assume(t >= security.MinTime && t < security.MaxTime)
		id := message.NewID(ssid)
		id.SetTime(t)
		c06peerFrame = append(c06peerFrame, message.Message{ID: id, Channel: []byte("c/"), Payload: []byte{byte(100 + i)}, TTL: 4294967294})
		all = append(all, ent{t: t, peer: true})
	}
	// all times distinct: which of two equally old messages is cut is not specified
	for i := range all {
		for j := i + 1; j < len(all); j++ {
			v.Assume(all[i].t != all[j].t)
		}
	}
	limit := 1 + v.Choice(nl+np, "limit")
	sv := &c06survey{}
	var s *SSD
	if v.Symbolic() {
		s = &SSD{db: new(badger.DB), survey: sv}
		sv.resp = [][]byte{{1}}
	} else {
		mem := NewInMemory(sv)
		mem.Configure(nil)
		s = &mem.SSD
		for _, m := range local {
			s.storeFrame(message.Frame{m})
		}
		sv.resp = [][]byte{c06peerFrame.Encode()}
	}
	res, err := s.Query(ssid, time.Unix(security.MinTime, 0), time.Unix(0, 0), nil, limit)
	v.Reach("cluster-queried")
	v.Assert(err == nil, "C06.cluster.query-ok")
	v.Assert(len(res) <= limit, "C06.cluster.at-most-limit")
	for i := 0; i+1 < len(res); i++ {
		v.Assert(res[i].Time() <= res[i+1].Time(), "C06.cluster.non-decreasing-time")
	}
	// expected: message x is returned iff fewer than `limit` messages (local or peer) are newer
	for i := range all {
		newer := 0
		for j := range all {
			if j != i {
				newer += int(verifrt.B2U(all[j].t > all[i].t))
			}
		}
		want := newer < limit
		got := false
		for _, m := range res {
			idx := int(m.Payload[0])
			if all[i].peer {
				idx -= 100 - nl
			}
			if idx == i {
				got = true
			}
		}
		v.Assert(got == want, "C06.cluster.most-recent-of-local-and-peers")
	}
	v.Observe("n", uint64(len(res)))
}

// VerifC06SizeCap: "... and that fit the reply-size cap". Three stored messages of one channel
// (newest first) whose payloads are tiny, 30 KB or 60 KB in any combination, any limit: the
// page is the longest run of most recent messages whose ids, channels and payloads together
// stay within the cap (64 KiB) - it ends at the first message that does not fit, it does not
// reach past it for older, smaller ones - cut to the limit.
func VerifC06SizeCap(v *verifrt.T) {
	ssid := message.Ssid{7, 11}
	const n = 3
	sizes := []int{1, 30000, 60000}
	c06entries = nil
	var msgs []message.Message
	for i := 0; i < n; i++ {
		t := v.I64("t", i)
		v.Assume(t >= security.MinTime && t < security.MaxTime)
		id := message.NewID(ssid)
		id.SetTime(t)
		pay := make([]byte, sizes[v.Choice(len(sizes), "size", i)])
		pay[0] = byte(i)
		m := message.Message{ID: id, Channel: []byte("c/"), Payload: pay, TTL: 4294967294}
		msgs = append(msgs, m)
		c06entries = append(c06entries, c06entry{key: id, msg: m})
	}
	for i := 0; i+1 < n; i++ {
		v.Assume(bytes.Compare(c06entries[i].key, c06entries[i+1].key) < 0) // key order = newest first
	}
	limit := 1 + v.Choice(n, "limit")
	var s *SSD
	if v.Symbolic() {
		s = &SSD{db: new(badger.DB)}
	} else {
		mem := NewInMemory(nil)
		mem.Configure(nil)
		s = &mem.SSD
		for _, m := range msgs {
			s.storeFrame(message.Frame{m})
		}
	}
	res := s.lookup(lookupQuery{Ssid: ssid, From: security.MinTime, Until: security.MaxTime - 1, Limit: limit})
	v.Reach("size-capped")
	// expected page: newest first while the running size fits and the limit is not reached
	want := 0
	size := 0
	for i := 0; i < n && want < limit; i++ {
		size += len(msgs[i].Payload) + len(msgs[i].ID) + len(msgs[i].Channel)
		if size > 65536 {
			break
		}
		want++
	}
	v.Assert(len(res) == want, "C06.cap.page-is-the-most-recent-run-that-fits")
	for k := 0; k < len(res) && k < want; k++ {
		v.Assert(int(res[k].Payload[0]) == k, "C06.cap.no-reaching-past-a-message-that-does-not-fit")
	}
	v.Observe("n", uint64(len(res)))
}
