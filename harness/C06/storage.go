package storage

import (
	"bytes"

	"github.com/dgraph-io/badger/v3"

	"github.com/emitter-io/emitter/internal/message"
	"github.com/emitter-io/emitter/internal/security"
	"github.com/emitter-io/emitter/internal/verifrt"
)

// ---- a symbolic ordered store standing in for badger (symbolic executor only) ----

type c06entry struct {
	key     message.ID
	msg     message.Message
	expired bool
}

var (
	c06entries []c06entry
	c06iters   = map[*badger.Iterator]*int{}
	c06items   = map[*badger.Item]int{}
)

func c06View(db *badger.DB, fn func(tx *badger.Txn) error) error { return fn(new(badger.Txn)) }

func c06NewIterator(tx *badger.Txn, opt badger.IteratorOptions) *badger.Iterator {
	it := new(badger.Iterator)
	pos := len(c06entries)
	c06iters[it] = &pos
	return it
}

func c06skip(p *int) {
	for *p < len(c06entries) && c06entries[*p].expired {
		*p++
	}
}

func c06Seek(it *badger.Iterator, key []byte) {
	p := c06iters[it]
	*p = 0
	for *p < len(c06entries) && bytes.Compare(c06entries[*p].key, key) < 0 {
		*p++
	}
	c06skip(p)
}

func c06Valid(it *badger.Iterator) bool { return *c06iters[it] < len(c06entries) }
func c06Next(it *badger.Iterator) {
	p := c06iters[it]
	*p++
	c06skip(p)
}
func c06Close(it *badger.Iterator) {}
func c06Item(it *badger.Iterator) *badger.Item {
	item := new(badger.Item)
	c06items[item] = *c06iters[it]
	return item
}
func c06Key(item *badger.Item) []byte { return c06entries[c06items[item]].key }
func c06ValueCopy(item *badger.Item, dst []byte) ([]byte, error) {
	return []byte{byte(c06items[item])}, nil
}
func c06DecodeMessage(buf []byte) (message.Message, error) { return c06entries[buf[0]].msg, nil }

// ---- harness ----

const (
	c06wild = uint32(1815237614)
	c06multi = uint32(4285801373)
)

func c06match(q message.Ssid, e message.Ssid) bool {
	if len(q) > len(e) {
		return false
	}
	r := true
	for i := range q {
		r = verifrt.And(r, verifrt.Or(q[i] == e[i], verifrt.Or(q[i] == c06wild, q[i] == c06multi)))
	}
	return r
}

// VerifC06Query: N stored messages with arbitrary contract, channel words and
// second-resolution time (kept in key order, as the store keeps them), arbitrary
// expiry; an arbitrary query (filter words, window, limit, optional continuation id).
func VerifC06Query(v *verifrt.T) {
	n := v.Bound("entries")
	type ent struct {
		ssid    message.Ssid
		time    int64
		expired bool
	}
	ents := make([]ent, n)
	c06entries = nil
	for i := 0; i < n; i++ {
		depth := 2 + v.Choice(v.Bound("depth")-1, "depth", i)
		s := make(message.Ssid, depth)
		for k := range s {
			s[k] = v.U32("e", i, k)
			v.Assume(s[k] != c06wild && s[k] != c06multi) // stored channels are static
		}
		t := v.I64("t", i)
		v.Assume(t >= security.MinTime && t < security.MaxTime)
		ents[i] = ent{ssid: s, time: t, expired: v.Bool("expired", i)}
		id := message.NewID(s)
		id.SetTime(t)
		c06entries = append(c06entries, c06entry{key: id, msg: message.Message{ID: id, Channel: []byte("c/"), Payload: []byte{byte(i)}, TTL: 4294967294}, expired: ents[i].expired})
	}
	for i := 0; i+1 < n; i++ {
		v.Assume(bytes.Compare(c06entries[i].key, c06entries[i+1].key) < 0) // the store is ordered by key
	}
	// the query
	qd := 2 + v.Choice(v.Bound("depth")-1, "qdepth")
	q := make(message.Ssid, qd)
	for k := range q {
		q[k] = v.U32("q", k)
	}
	v.Assume(q[0] != c06wild && q[0] != c06multi && q[1] != c06wild && q[1] != c06multi) // contract and first level are literal
	from, until := v.I64("from"), v.I64("until")
	v.Assume(from >= 0 && from < security.MaxTime && until >= security.MinTime && until < security.MaxTime)
	limit := int(v.U8("limit"))
	cont := v.Choice(n+1, "continue") // n = no continuation id
	var startID message.ID
	if cont < n {
		startID = c06entries[cont].key
	}

	var s *SSD
	if v.Symbolic() {
		s = &SSD{db: new(badger.DB)}
	} else {
		mem := NewInMemory(nil)
		mem.Configure(nil)
		s = &mem.SSD
		for _, e := range c06entries {
			if !e.expired {
				s.storeFrame(message.Frame{e.msg})
			}
		}
	}
	res := s.lookup(lookupQuery{Ssid: q, From: from, Until: until, StartFromID: startID, Limit: limit})
	v.Reach("looked-up")
	res.Limit(limit) // what Query does with the local part
	// which entries came back
	got := make([]bool, n)
	for _, m := range res {
		idx := int(m.Payload[0])
		v.Assert(!got[idx], "C06.no-duplicate")
		got[idx] = true
	}
	for i := 0; i+1 < len(res); i++ {
		v.Assert(res[i].Time() <= res[i+1].Time(), "C06.non-decreasing-time")
	}
	v.Assert(len(res) <= limit, "C06.at-most-limit")
	// expected: the `limit` most recent of the matching, live, in-window entries (key order = newest first)
	var newer uint32
	for i := 0; i < n; i++ {
		m := verifrt.And(c06match(q, ents[i].ssid), verifrt.And(ents[i].time >= from, ents[i].time <= until))
		m = verifrt.And(m, verifrt.Not(ents[i].expired))
		if cont < n {
			m = verifrt.And(m, i > cont) // a continuation page starts strictly after the given id
			if cont >= i {
				m = false
			}
			// an expired (vanished) continuation id ends the listing
		}
		want := verifrt.And(m, newer < uint32(limit))
		if got[i] {
			v.Assert(m, "C06.only-matching-live-in-window-same-contract")
			if cont == n {
				v.Assert(want, "C06.only-the-most-recent")
			}
		} else if cont == n {
			v.Assert(verifrt.Not(want), "C06.all-of-the-most-recent")
		}
		newer += verifrt.B2U(m)
	}
	v.Observe("n", uint64(len(res)))
}
