package crdt

import (
	"github.com/emitter-io/emitter/internal/verifrt"
)

// C04: replicas that received the same set of updates - in any order, with
// duplicates, pre-merged groups (what a relay or a coalescing queue forwards)
// or the delta another replica passed on - hold the same add/remove time per
// key (the point-wise maximum), hence the same Has.

var c04keys = []string{"k1", "k2"}

type c04upd struct {
	add, del [2]int64 // per key; 0 = this update set says nothing
}

func c04draw(v *verifrt.T, i, nkeys int) c04upd {
	var u c04upd
	for k := 0; k < nkeys; k++ {
		u.add[k] = v.I64("a", i, k)
		u.del[k] = v.I64("d", i, k)
		v.Assume(u.add[k] >= 0 && u.del[k] >= 0)
	}
	return u
}

func c04val(a, d int64) Value {
	t := newValue()
	t.setAddTime(a)
	t.setDelTime(d)
	return t
}

// a fresh payload object carrying the update set (each delivery decodes its own copy)
func c04payload(u c04upd, nkeys int) *Volatile {
	m := make(map[string]Value)
	for k := 0; k < nkeys; k++ {
		if u.add[k] != 0 || u.del[k] != 0 {
			m[c04keys[k]] = c04val(u.add[k], u.del[k])
		}
	}
	return newVolatileWith(m)
}

func c04max(a, b int64) int64 { return int64(verifrt.IteU64(a > b, uint64(a), uint64(b))) }

func c04new(durable bool) Map {
	if durable {
		return newDurableWith("", nil)
	}
	return NewVolatile()
}

var c04perms = [][3]int{{0, 1, 2}, {0, 2, 1}, {1, 0, 2}, {1, 2, 0}, {2, 0, 1}, {2, 1, 0}}

func VerifC04Converge(v *verifrt.T) {
	nkeys := v.Bound("keys")
	durable := false
	if v.Bound("durable") == 1 {
		durable = v.Bool("durable")
	}
	var us [3]c04upd
	for i := range us {
		us[i] = c04draw(v, i, nkeys)
	}
	// R1: the three updates in an arbitrary order, one of them delivered twice
	r1 := c04new(durable)
	perm := c04perms[v.Choice(6, "perm")]
	dup := 3 - v.Choice(v.Bound("dups"), "dup") // 3 = no duplicate
	for pos, i := range perm {
		r1.Merge(c04payload(us[i], nkeys))
		if dup == pos {
			r1.Merge(c04payload(us[i], nkeys))
		}
	}
	// R2: a relay first merges U_a into U_b (a coalesced / full-state payload), then R2 gets that and U_c
	r2 := c04new(durable)
	g := c04perms[v.Choice(v.Bound("groups"), "group")]
	relay := NewVolatile()
	relay.Merge(c04payload(us[g[0]], nkeys))
	relay.Merge(c04payload(us[g[1]], nkeys))
	r2.Merge(c04payload(us[g[2]], nkeys))
	r2.Merge(relay) // relay's full state
	// R3: receives what R4 passes on (the delta R4 computed) after R4 saw the updates, plus R4's first update directly
	r4 := c04new(false)
	r3 := c04new(durable)
	for _, i := range perm {
		p := c04payload(us[i], nkeys)
		r4.Merge(p)  // p is now the delta that R4 relays
		r3.Merge(p)
	}
	v.Reach("converged")
	for k := 0; k < nkeys; k++ {
		wantA := c04max(us[0].add[k], c04max(us[1].add[k], us[2].add[k]))
		wantD := c04max(us[0].del[k], c04max(us[1].del[k], us[2].del[k]))
		active := verifrt.And(wantA != 0, wantA >= wantD)
		for ri, r := range []Map{r1, r2, r3, r4} {
			t := r.Get(c04keys[k])
			switch ri {
			case 0:
				v.Assert(t.AddTime() == wantA && t.DelTime() == wantD, "C04.order-and-duplicates")
			case 1:
				v.Assert(t.AddTime() == wantA && t.DelTime() == wantD, "C04.grouping")
			case 2:
				v.Assert(t.AddTime() == wantA && t.DelTime() == wantD, "C04.relayed-deltas")
			default:
				v.Assert(t.AddTime() == wantA && t.DelTime() == wantD, "C04.reference-replica")
			}
			v.Assert(r.Has(c04keys[k]) == active, "C04.active-iff-added-and-not-older-than-remove")
		}
	}
	v.Observe("has1", uint64(verifrt.B2U(r1.Has(c04keys[0]))))
}

// VerifC04Local: local Add/Del with an arbitrary (possibly non-monotone) clock
// interleaved with merges converge as well: an operation stamped t is the update (t).
func VerifC04Local(v *verifrt.T) {
	durable := false
	if v.Bound("durable") == 1 {
		durable = v.Bool("durable")
	}
	var clk int64
	Now = func() int64 { return clk }
	n := v.Bound("ops")
	a, b := c04new(durable), c04new(durable)
	var wantA, wantD int64
	type op struct {
		kind int
		t    int64
	}
	var ops []op
	for i := 0; i < n; i++ {
		o := op{kind: v.Choice(2, "kind", i), t: v.I64("t", i)}
		v.Assume(o.t >= 0)
		ops = append(ops, o)
		if o.kind == 0 {
			wantA = c04max(wantA, o.t)
		} else {
			wantD = c04max(wantD, o.t)
		}
	}
	// replica a performs the operations locally in order
	for _, o := range ops {
		clk = o.t
		if o.kind == 0 {
			a.Add("k1", nil)
		} else {
			a.Del("k1")
		}
	}
	// replica b receives them as one-operation payloads in reverse order
	for i := len(ops) - 1; i >= 0; i-- {
		o := ops[i]
		if o.kind == 0 {
			b.Merge(newVolatileWith(map[string]Value{"k1": c04val(o.t, 0)}))
		} else {
			b.Merge(newVolatileWith(map[string]Value{"k1": c04val(0, o.t)}))
		}
	}
	v.Reach("local-done")
	ta, tb := a.Get("k1"), b.Get("k1")
	v.Assert(ta.AddTime() == wantA && ta.DelTime() == wantD, "C04.local-ops-are-max")
	v.Assert(tb.AddTime() == wantA && tb.DelTime() == wantD, "C04.remote-ops-are-max")
	v.Assert(a.Has("k1") == b.Has("k1"), "C04.same-activity")
	v.Assert(a.Has("k1") == verifrt.And(wantA != 0, wantA >= wantD), "C04.active-definition")
}

// VerifC04NoSharing: a payload object that has been merged lives on - Merge turns it into
// the delta, the gossip library queues it for relay and merges it into its pending payload,
// an in-process neighbour may receive the same object. None of that may reach back into the
// replica that merged it first (and the queued delta must not change when that replica moves
// on): state and payload do not share memory after a merge.
func VerifC04NoSharing(v *verifrt.T) {
	durable := v.Bool("durable") // both backends at every tier: the durable one encodes zero-copy
	var us [4]c04upd
	for i := range us {
		us[i] = c04draw(v, i, 1)
	}
	k := c04keys[0]
	r := c04new(durable)
	if v.Bool("known") { // the replica may already know the key
		r.Merge(c04payload(us[0], 1))
	} else {
		us[0] = c04upd{}
	}
	p := c04payload(us[1], 1)
	r.Merge(p) // p is now the delta r relays
	wantA, wantD := c04max(us[0].add[0], us[1].add[0]), c04max(us[0].del[0], us[1].del[0])
	dA, dD := p.Get(k).AddTime(), p.Get(k).DelTime()
	// the sender merges the delta into a pending payload that knows the key ...
	pending := NewVolatile()
	pending.Merge(c04payload(us[2], 1))
	pending.Merge(p)
	// ... and a neighbour that knows the key receives the same object
	n := c04new(durable)
	n.Merge(c04payload(us[3], 1))
	n.Merge(p)
	v.Reach("delta-reused")
	t := r.Get(k)
	v.Assert(t.AddTime() == wantA && t.DelTime() == wantD, "C04.state-not-reachable-through-the-merged-payload")
	// the other direction: a queued delta keeps its times while the replica moves on
	q := c04payload(us[1], 1)
	r2 := c04new(durable)
	r2.Merge(q)
	qA, qD := q.Get(k).AddTime(), q.Get(k).DelTime()
	r2.Merge(c04payload(us[2], 1))
	r2.Merge(c04payload(us[3], 1))
	v.Assert(q.Get(k).AddTime() == qA && q.Get(k).DelTime() == qD, "C04.queued-delta-not-reachable-through-the-state")
	_, _ = dA, dD
}

// VerifC04DurableLookups: the durable set answers Has/Get through a read cache. A lookup
// between two merges (which fills the cache) must not change what the replica answers after
// the second merge: still the point-wise maximum, still "active iff added and not older than
// the remove".
func VerifC04DurableLookups(v *verifrt.T) {
	k := c04keys[0]
	r := newDurableWith("", nil)
	u0, u1 := c04draw(v, 0, 1), c04draw(v, 1, 1)
	r.Merge(c04payload(u0, 1))
	if v.Bool("lookup-between") {
		_ = r.Has(k)
		_ = r.Get(k)
	}
	r.Merge(c04payload(u1, 1))
	v.Reach("looked-up-and-merged")
	wantA, wantD := c04max(u0.add[0], u1.add[0]), c04max(u0.del[0], u1.del[0])
	t := r.Get(k)
	v.Assert(t.AddTime() == wantA && t.DelTime() == wantD, "C04.durable.lookup-does-not-freeze-the-answer")
	v.Assert(r.Has(k) == verifrt.And(wantA != 0, wantA >= wantD), "C04.durable.active-after-cached-lookup")
}
