package crdt

import (
	"bytes"
	"reflect"

	"github.com/kelindar/binary"

	"github.com/emitter-io/emitter/internal/verifrt"
)

// VerifC04Codec: one encode/decode hop of a replica's payload. A volatile set with
// arbitrary keys, add/remove times and values goes through the real codecVolatile
// (kelindar/binary encoder and decoder executed from source) and comes back with the
// same entries byte for byte, so merging a decoded payload is merging the payload.
// (binary.Marshal's reflection walk over the enclosing map and snappy are outside.)
func VerifC04Codec(v *verifrt.T) {
	n := v.Bound("ckeys")
	s := NewVolatile()
	keys := make([]string, n)
	vals := make([][]byte, n)
	for i := 0; i < n; i++ {
		k := v.Bytes(1+v.Choice(v.Bound("cklen"), "kl", i), "k"+string(rune('0'+i)))
		keys[i] = string(k)
		vals[i] = v.Bytes(16+v.Choice(v.Bound("cvlen")+1, "vl", i), "v"+string(rune('0'+i)))
		for j := 0; j < i; j++ {
			v.Assume(keys[j] != keys[i])
		}
		s.data[keys[i]] = Value(append([]byte(nil), vals[i]...))
	}
	var buf bytes.Buffer
	e := binary.NewEncoder(&buf)
	c := new(codecVolatile)
	v.Assert(c.EncodeTo(e, reflect.ValueOf(*s)) == nil, "C04.codec.encodes")
	var out Volatile
	d := binary.NewDecoder(bytes.NewBuffer(buf.Bytes()))
	v.Assert(c.DecodeTo(d, reflect.ValueOf(&out).Elem()) == nil, "C04.codec.decodes")
	v.Reach("codec-roundtrip")
	v.Assert(len(out.data) == n, "C04.codec.same-entries")
	for i := 0; i < n; i++ {
		got, ok := out.data[keys[i]]
		v.Assert(ok && bytes.Equal(got, vals[i]), "C04.codec.same-entries")
		if ok {
			v.Assert(got.AddTime() == Value(vals[i]).AddTime() && got.DelTime() == Value(vals[i]).DelTime(), "C04.codec.same-times")
		}
	}
	v.Observe("len", uint64(buf.Len()))
}

// VerifC04CodecDurable: what a durable replica (the ban set) sends is decoded by its
// peers with the volatile codec (DecodeState only ever builds volatile sets): the real
// durableCodec.EncodeTo output read back by codecVolatile.DecodeTo has exactly the durable
// set's entries.
func VerifC04CodecDurable(v *verifrt.T) {
	n := v.Bound("ckeys")
	items := map[string]Value{}
	keys := make([]string, n)
	vals := make([][]byte, n)
	for i := 0; i < n; i++ {
		k := v.Bytes(1+v.Choice(v.Bound("cklen"), "kl", i), "k"+string(rune('0'+i)))
		keys[i] = string(k)
		vals[i] = v.Bytes(16+v.Choice(v.Bound("cvlen")+1, "vl", i), "v"+string(rune('0'+i)))
		for j := 0; j < i; j++ {
			v.Assume(keys[j] != keys[i])
		}
		items[keys[i]] = Value(append([]byte(nil), vals[i]...))
	}
	s := newDurableWith("", items)
	var buf bytes.Buffer
	e := binary.NewEncoder(&buf)
	v.Assert(new(durableCodec).EncodeTo(e, reflect.ValueOf(*s)) == nil, "C04.codec.encodes")
	var out Volatile
	d := binary.NewDecoder(bytes.NewBuffer(buf.Bytes()))
	v.Assert(new(codecVolatile).DecodeTo(d, reflect.ValueOf(&out).Elem()) == nil, "C04.codec.decodes")
	v.Reach("durable-codec-roundtrip")
	v.Assert(len(out.data) == n, "C04.codec.same-entries")
	for i := 0; i < n; i++ {
		got, ok := out.data[keys[i]]
		v.Assert(ok && bytes.Equal(got, vals[i]), "C04.codec.same-entries")
	}
	v.Observe("len", uint64(buf.Len()))
}

// VerifC04CodecLarge: the hop must not depend on the size of an entry: a connection event can
// carry a last-will message of a full packet (64 KiB and more). One entry whose value is
// just below, at and above 2^16 bytes (first and last bytes arbitrary), beside a small one,
// through the real codec: both come back, byte for byte.
func VerifC04CodecLarge(v *verifrt.T) {
	sizes := []int{65535, 65536, 65537, 70000}
	n := sizes[v.Choice(len(sizes), "size")]
	big := make([]byte, n)
	copy(big, v.Bytes(16, "times"))
	big[n-1] = v.U8("last")
	small := v.Bytes(16, "small")
	s := NewVolatile()
	s.data["big"] = Value(append([]byte(nil), big...))
	s.data["small"] = Value(append([]byte(nil), small...))
	var buf bytes.Buffer
	e := binary.NewEncoder(&buf)
	c := new(codecVolatile)
	v.Assert(c.EncodeTo(e, reflect.ValueOf(*s)) == nil, "C04.codec.encodes")
	var out Volatile
	d := binary.NewDecoder(bytes.NewBuffer(buf.Bytes()))
	err := c.DecodeTo(d, reflect.ValueOf(&out).Elem())
	v.Reach("large-roundtrip")
	v.Assert(err == nil, "C04.codec.large-entry-decodes")
	if err == nil {
		g, ok := out.data["big"]
		v.Assert(ok && len(g) == n && g[n-1] == big[n-1] && bytes.Equal(g[:16], big[:16]), "C04.codec.large-entry-unchanged")
		g2, ok2 := out.data["small"]
		v.Assert(ok2 && bytes.Equal(g2, small), "C04.codec.neighbour-of-a-large-entry-unchanged")
	}
}
