package license

import (
	"time"

	"github.com/emitter-io/emitter/internal/verifrt"
)

// VerifC20V1: a version-1 license with arbitrary fields prints to a string
// that parses back to the same contract, signature, expiry, type and cipher key.
func VerifC20V1(v *verifrt.T) {
	keyBytes := v.Bytes(16, "key")
	l := &V1{
		EncryptionKey: b64(keyBytes),
		User:          v.U32("user"),
		Sign:          v.U32("sign"),
		Type:          v.U32("type"),
	}
	exp := v.U32("exp") // seconds after the 2010 offset, 0 = never
	if exp == 0 {
		l.Expires = time.Unix(0, 0)
	} else {
		l.Expires = time.Unix(timeOffset+int64(exp), 0)
	}
	s := l.String()
	v.Reach("printed")
	v.Assert(len(s) == 45, "C20.v1.length")
	p, err := Parse(s)
	v.Assert(err == nil, "C20.v1.parse-ok")
	q := p.(*V1)
	v.Assert(q.EncryptionKey == l.EncryptionKey, "C20.v1.key")
	v.Assert(q.Contract() == l.User && q.Signature() == l.Sign && q.Type == l.Type, "C20.v1.fields")
	v.Assert(q.Expires.Unix() == l.Expires.Unix(), "C20.v1.expiry")
	v.Assert(q.Master() == 1, "C20.v1.master")
	// without the ":1" suffix the default branch parses the same license
	p2, err := Parse(s[:len(s)-2])
	v.Assert(err == nil, "C20.v1.parse-default-ok")
	v.Assert(p2.Contract() == l.User && p2.Signature() == l.Sign, "C20.v1.parse-default-fields")
	c1, err1 := l.Cipher()
	c2, err2 := q.Cipher()
	v.Assert(err1 == nil && err2 == nil && c1 != nil && c2 != nil, "C20.v1.cipher-ok")
	v.Observe("len", uint64(len(s)))
}

func b64(b []byte) string {
	const enc = "ABCDEFGHIJKLMNOPQRSTUVWXYZabcdefghijklmnopqrstuvwxyz0123456789-_"
	// 16 bytes -> 22 characters (RawURLEncoding), written independently of encoding/base64
	out := make([]byte, 0, 22)
	var acc uint32
	bits := 0
	for _, x := range b {
		acc = acc<<8 | uint32(x)
		bits += 8
		for bits >= 6 {
			out = append(out, enc[(acc>>uint(bits-6))&63])
			bits -= 6
		}
	}
	if bits > 0 {
		out = append(out, enc[(acc<<uint(6-bits))&63])
	}
	return string(out)
}

// VerifC20Parse: parsing any string yields a license or an error - never a
// panic. Two regimes: every byte string of up to parselen bytes, and strings of
// 40..longlen bytes without CR/LF (base64 skips those, which only multiplies paths).
// Strings ending in ":2" / ":3" are outside (snappy + reflection codec).
func VerifC20Parse(v *verifrt.T) {
	var b []byte
	if v.Choice(2, "regime") == 0 {
		b = v.Bytes(v.Choice(v.Bound("parselen")+1, "n"), "s")
	} else {
		b = v.Bytes(40+v.Choice(v.Bound("longlen")-39, "m"), "s")
		for _, c := range b {
			v.Assume(c != '\n' && c != '\r')
		}
	}
	if n := len(b); n >= 2 {
		v.Assume(!(b[n-2] == ':' && (b[n-1] == '2' || b[n-1] == '3')))
	}
	s := string(b)
	var l License
	var err error
	panicked := v.Try(func() { l, err = Parse(s) })
	v.Reach("parsed")
	v.Assert(!panicked, "C20.parse.no-panic")
	if err == nil {
		// a license was returned: it must be usable
		v.Assert(l != nil, "C20.parse.license-or-error")
		usable := !v.Try(func() { _ = l.Contract(); _ = l.Signature(); _ = l.Master() })
		v.Assert(usable, "C20.parse.license-usable")
	}
	v.Observe("ok", uint64(verifrt.B2U(err == nil)))
}
