package cipher

import (
	"bytes"
	"encoding/base64"
	"errors"

	"github.com/emitter-io/emitter/internal/security"
	"github.com/emitter-io/emitter/internal/verifrt"
)

// The property is decided compositionally (DESIGN.md, C20):
//  L1 (VerifC20CodecLeft/Right/Len): the real string codec pair used by all three
//     ciphers - base64.RawURLEncoding.EncodeToString and the in-place decodeKey - is
//     a bijection between 24-byte arrays and 32-character URL-safe strings and
//     rejects every other string.
//  L2 (VerifC20Left/Right): the real EncryptKey/DecryptKey of each cipher, with all
//     secrets symbolic, are mutually inverse when the codec pair is replaced by a
//     transparent bijection (24 raw bytes + 8 bytes of padding). The cipher code only
//     calls the codec as a black box, so L1 and L2 compose to the statement.
// Natively (replay) nothing is substituted and the real codec runs.

type c20cipher interface {
	DecryptKey(buffer []byte) (security.Key, error)
	EncryptKey(k security.Key) (string, error)
}

var c20alpha [256]bool

func init() {
	for _, c := range []byte("ABCDEFGHIJKLMNOPQRSTUVWXYZabcdefghijklmnopqrstuvwxyz0123456789-_") {
		c20alpha[c] = true
	}
}

// ---- transparent codec used only under the symbolic executor (spec.json: subst) ----

func c20stubEncode(e *base64.Encoding, src []byte) string {
	out := make([]byte, 0, len(src)+8)
	out = append(out, src...)
	out = append(out, "AAAAAAAA"...)
	return string(out)
}

func c20stubDecodeKey(dst, src []byte) (int, error) {
	if len(src) < 8 {
		return 0, errors.New("stub: short")
	}
	n := len(src) - 8
	for i := n; i < len(src); i++ {
		if src[i] != 'A' {
			return 0, errors.New("stub: bad padding")
		}
	}
	copy(dst, src[:n])
	return n, nil
}

func c20valid(v *verifrt.T, s []byte) bool {
	ok := true
	if v.Symbolic() {
		for i := 24; i < 32; i++ {
			ok = verifrt.And(ok, s[i] == 'A')
		}
		return ok
	}
	for i := range s {
		ok = ok && c20alpha[s[i]]
	}
	return ok
}

// c20make builds one of the three ciphers with an arbitrary (symbolic) secret.
func c20make(v *verifrt.T, kind int) c20cipher {
	switch kind {
	case 0:
		x := new(Xtea)
		for i := range x.key {
			x.key[i] = v.U32("xk", i)
		}
		return x
	case 1:
		s := new(Salsa)
		copy(s.key[:], v.Bytes(32, "sk"))
		copy(s.nonce[:], v.Bytes(24, "sn"))
		return s
	default:
		s := new(Shuffle)
		copy(s.key[:], v.Bytes(32, "hk"))
		copy(s.nonce[:], v.Bytes(16, "hn"))
		return s
	}
}

// VerifC20Left: for every secret and every 24-byte key k: EncryptKey(k) is 32
// characters and DecryptKey gives k back (L2, left inverse).
func VerifC20Left(v *verifrt.T) {
	kind := v.Choice(3, "cipher")
	c := c20make(v, kind)
	k := security.Key(v.Bytes(24, "k"))
	orig := append([]byte(nil), k...)
	s, err := c.EncryptKey(k)
	v.Assert(err == nil, "C20.left.encrypt-ok")
	v.Assert(len(s) == 32, "C20.left.length")
	v.Assert(bytes.Equal(k, orig), "C20.left.input-untouched")
	v.Reach("encrypted")
	d, err := c.DecryptKey([]byte(s))
	v.Assert(err == nil, "C20.left.decrypt-ok")
	v.Assert(bytes.Equal(d, orig), "C20.left.roundtrip")
	v.Observe("len", uint64(len(s)))
}

// VerifC20Right: for every 32-byte string s: DecryptKey errs iff the codec
// rejects s; otherwise EncryptKey(DecryptKey(s)) == s (L2, right inverse).
func VerifC20Right(v *verifrt.T) {
	kind := v.Choice(3, "cipher")
	c := c20make(v, kind)
	s := v.Bytes(32, "s")
	orig := append([]byte(nil), s...)
	valid := c20valid(v, orig)
	d, err := c.DecryptKey(s)
	v.Reach("decrypted")
	v.Assert((err == nil) == valid, "C20.right.rejects-exactly-invalid")
	if err != nil {
		return
	}
	v.Assert(len(d) == 24, "C20.right.length")
	e, err := c.EncryptKey(d)
	v.Assert(err == nil, "C20.right.encrypt-ok")
	v.Assert(e == string(orig), "C20.right.roundtrip")
}

// VerifC20Len: strings of any other length are rejected with an error (never a
// panic) by the real functions (no substitution).
func VerifC20Len(v *verifrt.T) {
	kind := v.Choice(3, "cipher")
	c := c20make(v, kind)
	n := v.Choice(v.Bound("maxlen")+1, "n")
	v.Assume(n != 32)
	s := v.Bytes(n, "s")
	var err error
	panicked := v.Try(func() { _, err = c.DecryptKey(s) })
	v.Reach("len-done")
	v.Assert(!panicked, "C20.len.no-panic")
	v.Assert(err != nil, "C20.len.rejected")
}

// ---- L1: the real codec pair ----

func VerifC20CodecLeft(v *verifrt.T) {
	b := v.Bytes(24, "b")
	s := base64.RawURLEncoding.EncodeToString(b)
	v.Assert(len(s) == 32, "C20.codec.left.length")
	v.Reach("codec-encoded")
	for i := 0; i < len(s); i++ {
		v.Assert(c20alpha[s[i]], "C20.codec.left.alphabet")
	}
	buf := []byte(s)
	n, err := decodeKey(buf, buf)
	v.Assert(err == nil && n == 24, "C20.codec.left.decode-ok")
	v.Assert(bytes.Equal(buf[:24], b), "C20.codec.left.roundtrip")
}

func VerifC20CodecRight(v *verifrt.T) {
	s := v.Bytes(32, "s")
	orig := append([]byte(nil), s...)
	valid := true
	for i := range orig {
		valid = verifrt.And(valid, c20alpha[orig[i]])
	}
	n, err := decodeKey(s, s)
	v.Reach("codec-decoded")
	v.Assert((err == nil) == valid, "C20.codec.right.rejects-exactly-bad-alphabet")
	if err != nil {
		return
	}
	v.Assert(n == 24, "C20.codec.right.length")
	e := base64.RawURLEncoding.EncodeToString(s[:n])
	v.Assert(len(e) == 32, "C20.codec.right.relength")
	for i := 0; i < len(e) && i < len(orig); i++ {
		v.Assert(e[i] == orig[i], "C20.codec.right.roundtrip")
	}
}

// VerifC20Sequence: a cipher object is used for many keys, and a broker restart (or a second
// broker with the same license) builds another object from the same secret. Two keys
// encrypted one after the other by one object both decrypt - by that object and by a second
// object built from the same secret - to themselves, whatever their salts (including 0) and
// in whichever order the strings are decrypted: no state carried from one key to the next.
func VerifC20Sequence(v *verifrt.T) {
	kind := v.Choice(3, "cipher")
	c := c20make(v, kind)
	// the same secret again (the draws are named, so drawing them again yields the same values)
	k1 := security.Key(v.Bytes(24, "k1"))
	k2 := security.Key(v.Bytes(24, "k2"))
	o1, o2 := append([]byte(nil), k1...), append([]byte(nil), k2...)
	s1, err1 := c.EncryptKey(k1)
	s2, err2 := c.EncryptKey(k2)
	v.Assert(err1 == nil && err2 == nil, "C20.seq.encrypt-ok")
	v.Reach("sequence-encrypted")
	c2 := c20copy(c)
	first := v.Bool("decrypt-second-first")
	dec := func(x c20cipher, s string) []byte {
		d, err := x.DecryptKey([]byte(s))
		v.Assert(err == nil, "C20.seq.decrypt-ok")
		return d
	}
	if first {
		v.Assert(bytes.Equal(dec(c, s2), o2), "C20.seq.same-object-roundtrip")
		v.Assert(bytes.Equal(dec(c, s1), o1), "C20.seq.same-object-roundtrip")
	} else {
		v.Assert(bytes.Equal(dec(c, s1), o1), "C20.seq.same-object-roundtrip")
		v.Assert(bytes.Equal(dec(c, s2), o2), "C20.seq.same-object-roundtrip")
	}
	v.Assert(bytes.Equal(dec(c2, s1), o1) && bytes.Equal(dec(c2, s2), o2), "C20.seq.fresh-object-from-the-same-secret")
	// and the fresh object encrypts to the same strings
	t1, _ := c2.EncryptKey(security.Key(append([]byte(nil), o1...)))
	v.Assert(t1 == s1, "C20.seq.same-secret-same-string")
}

// c20copy builds a second cipher object from the secret of the first (as NewXtea / NewSalsa /
// NewShuffle do from the license): only the secret is copied, nothing the object learnt since.
func c20copy(c c20cipher) c20cipher {
	switch x := c.(type) {
	case *Xtea:
		y := new(Xtea)
		y.key = x.key
		return y
	case *Salsa:
		y := new(Salsa)
		y.key, y.nonce = x.key, x.nonce
		return y
	case *Shuffle:
		y := new(Shuffle)
		y.key, y.nonce = x.key, x.nonce
		return y
	}
	return nil
}
