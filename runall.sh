#!/bin/bash
# runs every registered check's quick tier sequentially; prints one line each
cd /verif
for id in $(python3 -c "import json;print(' '.join(c['property_id'] for c in json.load(open('MANIFEST.json'))['checks']))") "$@"; do
  s=$(date +%s)
  out=$(timeout 1200 ./check $id --tier ${TIER:-quick} 2>&1)
  rc=$?
  e=$(( $(date +%s) - s ))
  echo "$id rc=$rc ${e}s :: $(echo "$out" | tail -n 1 | cut -c1-170)"
  echo "$out" | grep "^VIOLATION\|^INCONCLUSIVE" | head -5 | cut -c1-300
done
