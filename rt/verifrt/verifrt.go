// Package verifrt is the harness runtime. The same harness source is (a)
// executed symbolically by /verif/engine (gosym), which intercepts every
// function and method of this package as an intrinsic, and (b) compiled
// natively for replay (`go test -overlay`), where draws come from the JSON file
// named by $VERIF_DRAWS. It is injected into /repo by overlay only.
package verifrt

import (
	"encoding/json"
	"os/exec"
	"fmt"
	"math/rand"
	"runtime"
	"os"
	"reflect"
	"strconv"
	"strings"
	"sync"
	"time"
	"unsafe"
)

// T carries the draw source of one harness execution.
type T struct {
	draws    map[string]uint64
	missing  []string
	Failed   []string // assertion ids that failed (native)
	Skipped  bool     // an Assume was false (native)
	obs      []string
	reach    []string
	fatal    func(string)
	occ      map[string]int
	mu       sync.Mutex // free-running threads share the draw source
	File     string     // the draw file of this native run (harnesses that re-execute themselves in a child process)
}

// RuntimeError is the dynamic type of run-time panics raised by the symbolic
// executor (bounds, nil dereference, ...). Natively unused.
type RuntimeError string

func (e RuntimeError) Error() string { return "runtime error: " + string(e) }
func (e RuntimeError) RuntimeError() {}

type stop struct{ why string }

func key(name string, idx []int) string {
	if len(idx) == 0 {
		return name
	}
	var sb strings.Builder
	sb.WriteString(name)
	for _, i := range idx {
		fmt.Fprintf(&sb, "_%d", i)
	}
	return sb.String()
}

func (v *T) draw(name string, idx []int, bits uint) uint64 {
	v.mu.Lock()
	defer v.mu.Unlock()
	k := key(name, idx)
	if v.occ == nil {
		v.occ = map[string]int{}
	}
	n := v.occ[k]
	v.occ[k] = n + 1
	if n > 0 {
		k = fmt.Sprintf("%s#%d", k, n)
	}
	x, ok := v.draws[k]
	if !ok {
		v.missing = append(v.missing, k)
	}
	if bits < 64 {
		x &= (1 << bits) - 1
	}
	return x
}

func (v *T) Bool(name string, idx ...int) bool     { return v.draw(name, idx, 1) != 0 }
func (v *T) U8(name string, idx ...int) uint8       { return uint8(v.draw(name, idx, 8)) }
func (v *T) U16(name string, idx ...int) uint16     { return uint16(v.draw(name, idx, 16)) }
func (v *T) U32(name string, idx ...int) uint32     { return uint32(v.draw(name, idx, 32)) }
func (v *T) U64(name string, idx ...int) uint64     { return v.draw(name, idx, 64) }
func (v *T) I64(name string, idx ...int) int64      { return int64(v.draw(name, idx, 64)) }
func (v *T) I32(name string, idx ...int) int32      { return int32(v.draw(name, idx, 32)) }
func (v *T) Int(name string, idx ...int) int        { return int(v.draw(name, idx, 64)) }

// Choice returns a value in [0,n); the symbolic executor forks one path per value.
func (v *T) Choice(n int, name string, idx ...int) int {
	x := int(v.draw(name, idx, 32))
	if x < 0 || x >= n {
		v.Skipped = true
		panic(stop{"choice out of range"})
	}
	return x
}

// Bytes returns n arbitrary bytes.
func (v *T) Bytes(n int, name string, idx ...int) []byte {
	b := make([]byte, n)
	for i := range b {
		b[i] = uint8(v.draw(key(name, idx), []int{i}, 8))
	}
	return b
}

// Assume restricts the explored values; natively a false assumption means the
// draw file does not describe a path of the harness.
func (v *T) Assume(c bool) {
	if !c {
		v.Skipped = true
		panic(stop{"assume"})
	}
}

// Assert states the property. Natively a failure is recorded and ends the run.
func (v *T) Assert(c bool, id string) {
	if !c {
		v.mu.Lock()
		v.Failed = append(v.Failed, id)
		v.mu.Unlock()
		panic(stop{"assert " + id})
	}
}

// Reach is a vacuity witness: the executor must find a feasible path to it.
func (v *T) Reach(label string) { v.reach = append(v.reach, label) }

// Observe logs a value; symbolic and native logs are compared (translator validation).
func (v *T) Observe(label string, x uint64) {
	v.mu.Lock()
	defer v.mu.Unlock()
	v.obs = append(v.obs, fmt.Sprintf("%s=%d", label, x))
}

// Symbolic reports whether the harness runs under the symbolic executor.
func (v *T) Symbolic() bool { return false }

// Try runs f and reports whether it panicked (the panic is contained).
func (v *T) Try(f func()) (panicked bool) {
	defer func() {
		if r := recover(); r != nil {
			if s, ok := r.(stop); ok {
				panic(s)
			}
			panicked = true
		}
	}()
	f()
	return false
}

// Pure boolean helpers: they do not branch under the symbolic executor.
func And(a, b bool) bool { return a && b }
func Or(a, b bool) bool  { return a || b }
func Not(a bool) bool    { return !a }
func Implies(a, b bool) bool { return !a || b }
func B2U(a bool) uint32 {
	if a {
		return 1
	}
	return 0
}

// IteU32 selects without branching.
func IteU32(c bool, a, b uint32) uint32 {
	if c {
		return a
	}
	return b
}

// IteU64 selects without branching.
func IteU64(c bool, a, b uint64) uint64 {
	if c {
		return a
	}
	return b
}

// RunGoroutines lets goroutines started by the code under test run to
// quiescence under the symbolic executor; natively it is a no-op hook that a
// harness may pair with its own synchronisation.
func RunGoroutines() {}

// Result of one native execution.
type Result struct {
	Failed  []string `json:"failed"`
	Skipped bool     `json:"skipped"`
	Panic   string   `json:"panic"`
	Obs     []string `json:"obs"`
	Reach   []string `json:"reach"`
	Missing []string `json:"missing"`
	Alloc   uint64   `json:"alloc_bytes"` // bytes allocated while the entry ran (last attempt)
}

// TB is the part of *testing.T used here (keeps "testing" out of non-test builds).
type TB interface {
	Logf(format string, args ...interface{})
	Errorf(format string, args ...interface{})
}

// RunNative executes the harness once per draw file listed in $VERIF_DRAWS
// (colon separated) and writes <file>.result.json for each. The test fails
// (Errorf) when any run fails an assertion or panics, so `go test` exit status
// reflects reproduction.
func RunNative(t TB, name string, entry func(*T)) {
	files := strings.Split(os.Getenv("VERIF_DRAWS"), ":")
	for _, f := range files {
		if f == "" {
			continue
		}
		raw, err := os.ReadFile(f)
		if err != nil {
			t.Errorf("verifrt: %v", err)
			continue
		}
		var in struct {
			Entry string            `json:"entry"`
			Kind  string            `json:"kind"`
			Draws map[string]uint64 `json:"draws"`
		}
		if err := json.Unmarshal(raw, &in); err != nil {
			t.Errorf("verifrt: %s: %v", f, err)
			continue
		}
		if in.Entry != name {
			continue
		}
		// counterexamples may depend on Go's randomised map iteration order (a schedule the
		// symbolic run fixed): they are retried a few times; samples run once
		attempts := 1
		if in.Kind == "cex" || in.Kind == "known" {
			attempts = 12
		}
		if n, err := strconv.Atoi(os.Getenv("VERIF_ATTEMPTS")); err == nil && n > 0 {
			attempts = n
		}
		var v *T
		res := Result{}
		for a := 0; a < attempts; a++ {
			v = &T{draws: in.Draws, File: f}
			res = Result{}
			var ms0, ms1 runtime.MemStats
			runtime.ReadMemStats(&ms0)
			func() {
				defer func() {
					if r := recover(); r != nil {
						if _, ok := r.(stop); ok {
							return
						}
						res.Panic = fmt.Sprint(r)
					}
				}()
				entry(v)
			}()
			runtime.ReadMemStats(&ms1)
			res.Alloc = ms1.TotalAlloc - ms0.TotalAlloc
			if len(v.Failed) > 0 || res.Panic != "" {
				break
			}
		}
		res.Failed, res.Skipped, res.Obs, res.Reach, res.Missing = v.Failed, v.Skipped, v.obs, v.reach, v.missing
		out, _ := json.Marshal(res)
		os.WriteFile(f+".result.json", out, 0o644)
		if len(res.Failed) > 0 {
			t.Logf("VERIF-ASSERT-FAIL %s file=%s", strings.Join(res.Failed, ","), f)
		}
		if res.Panic != "" {
			t.Logf("VERIF-PANIC %s file=%s", res.Panic, f)
		}
	}
}

// Bound returns a bound declared in the harness spec for the current tier
// (natively it is read from the draw file under "bound:<name>").
func (v *T) Bound(name string) int {
	x, ok := v.draws["bound:"+name]
	if !ok {
		v.missing = append(v.missing, "bound:"+name)
	}
	return int(x)
}

// B2U8 converts without branching.
func B2U8(a bool) uint8 {
	if a {
		return 1
	}
	return 0
}

// SetUnexported sets obj.<path> = val where path is a dot-separated list of field
// names (embedded fields by their type name); nil pointers on the way are allocated.
// It lets a harness build just enough of a dependency's struct (e.g. mesh.Router's
// Ourself.Peer.Name) without running its constructor. obj must be a pointer to a struct.
func SetUnexported(obj interface{}, path string, val interface{}) {
	cur := reflect.ValueOf(obj).Elem()
	names := strings.Split(path, ".")
	for i, n := range names {
		f := cur.FieldByName(n)
		if !f.IsValid() {
			panic("verifrt: no field " + n)
		}
		f = reflect.NewAt(f.Type(), unsafe.Pointer(f.UnsafeAddr())).Elem()
		if i == len(names)-1 {
			f.Set(reflect.ValueOf(val).Convert(f.Type()))
			return
		}
		if f.Kind() == reflect.Ptr {
			if f.IsNil() {
				f.Set(reflect.New(f.Type().Elem()))
			}
			f = f.Elem()
		}
		cur = f
	}
}

// ---- threads ----
//
// Threads runs fns as concurrent threads. Under the symbolic executor every schedule
// with at most `bound` preemptions is explored (scheduling points before acquire-like
// synchronisation operations, plus a happens-before race detector). Natively there are
// two modes:
//   - schedule replay (the draw file carries sched_<k> entries and the code under test was
//     compiled from the instrumented overlay): one goroutine per thread, exactly one of them
//     running at a time, the baton changing hands at Point()/Acquire() as recorded;
//   - free ($VERIF_THREADS=free, used under `go test -race` to confirm data races): the
//     threads run as ordinary goroutines.
type nthread struct {
	id     int
	resume chan struct{}
	done   bool
}

type nsched struct {
	v       *T
	threads []*nthread
	cur     int
	k       int
	abort   interface{}
	diverge string
}

var curSched *nsched

func (s *nsched) point() {
	me := s.threads[s.cur]
	name := fmt.Sprintf("sched_%d", s.k)
	s.k++
	x, ok := s.v.draws[name]
	next := me
	if ok && int(x) < len(s.threads) {
		next = s.threads[int(x)]
	} else if me.done {
		// past the recorded schedule: run whatever is left, lowest id first, main last
		next = nil
		for _, t := range s.threads[1:] {
			if !t.done {
				next = t
				break
			}
		}
		if next == nil {
			next = s.threads[0]
		}
	}
	if next.done {
		s.diverge = fmt.Sprintf("schedule names finished thread %d at point %d", next.id, s.k-1)
		next = s.threads[0]
	}
	if next == me {
		return
	}
	s.cur = next.id
	next.resume <- struct{}{}
	if !me.done {
		if me.id == 0 {
			// the harness's own thread waits for the others: a stalled replay must not hang the test
			select {
			case <-me.resume:
			case <-time.After(60 * time.Second):
				s.diverge = "replay stalled (no thread handed the baton back within 60 s)"
				panic(stop{"schedule replay stalled"})
			}
			return
		}
		<-me.resume
	}
}

// P is the identity preceded by a scheduling point.
func P[T any](x T) T {
	Point()
	return x
}

// Point is a scheduling point (inserted by the replay instrumentation before
// synchronisation operations; a no-op outside schedule replay).
func Point() {
	if s := curSched; s != nil {
		s.point()
	}
}

// Acquire is the replay form of Lock/RLock: a scheduling point followed by the
// non-blocking acquisition, which the recorded schedule guarantees to succeed.
func Acquire(try func() bool, block func()) {
	s := curSched
	if s == nil {
		block()
		return
	}
	_, more := s.v.draws[fmt.Sprintf("sched_%d", s.k)]
	s.point()
	if !try() {
		if !more {
			// the recorded schedule ends here: every thread is blocked
			s.v.Failed = append(s.v.Failed, "deadlock")
			panic(stop{"deadlock"})
		}
		s.diverge = "lock not available at a point where the recorded schedule acquires it"
		panic(stop{"schedule diverged"})
	}
}

func (v *T) Threads(bound int, fns ...func()) {
	_, scheduled := v.draws["sched_0"]
	if os.Getenv("VERIF_THREADS") == "free" || !scheduled {
		done := make(chan interface{}, len(fns))
		for _, f := range fns {
			f := f
			go func() {
				defer func() { done <- recover() }()
				for j := rand.Intn(4); j > 0; j-- {
					runtime.Gosched()
				}
				f()
			}()
		}
		var first interface{}
		for range fns {
			if r := <-done; r != nil && first == nil {
				first = r
			}
		}
		if first != nil {
			panic(first)
		}
		return
	}
	s := &nsched{v: v}
	main := &nthread{id: 0, resume: make(chan struct{})}
	s.threads = append(s.threads, main)
	for i, f := range fns {
		t := &nthread{id: i + 1, resume: make(chan struct{})}
		s.threads = append(s.threads, t)
		f := f
		go func() {
			<-t.resume
			defer func() {
				if r := recover(); r != nil {
					s.abort = r
					t.done = true
					s.cur = 0
					main.resume <- struct{}{}
				}
			}()
			f()
			t.done = true
			s.point()
		}()
	}
	curSched = s
	defer func() { curSched = nil }()
	s.point()
	if s.abort != nil {
		panic(s.abort)
	}
	if s.diverge != "" {
		v.missing = append(v.missing, "schedule diverged: "+s.diverge)
	}
}

// Terminates runs f and fails the assertion id if f does not come back. Under the symbolic
// executor a loop inside f that goes round more often than the loop bound allows is the
// violation. Natively f runs in a child process (the test binary re-executed on the same draw
// file; the harness must be deterministic up to this call) which is killed after a deadline, so
// a runaway loop cannot take the replay down with it.
func (v *T) Terminates(id string, f func()) {
	const env = "VERIF_TERMINATES_CHILD"
	if os.Getenv(env) == id {
		f()
		os.Exit(0)
	}
	if os.Getenv(env) != "" || v.File == "" {
		f() // another Terminates call inside a child, or no draw file to hand over: run in place
		return
	}
	cmd := exec.Command(os.Args[0], os.Args[1:]...)
	cmd.Env = append(os.Environ(), env+"="+id, "VERIF_DRAWS="+v.File, "VERIF_ATTEMPTS=1")
	if err := cmd.Start(); err != nil {
		f()
		return
	}
	done := make(chan error, 1)
	go func() { done <- cmd.Wait() }()
	select {
	case <-done:
	case <-time.After(8 * time.Second):
		cmd.Process.Kill()
		<-done
		v.Assert(false, id)
	}
}
