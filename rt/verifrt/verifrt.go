// Package verifrt is the harness runtime. The same harness source is (a)
// executed symbolically by /verif/engine (gosym), which intercepts every
// function and method of this package as an intrinsic, and (b) compiled
// natively for replay (`go test -overlay`), where draws come from the JSON file
// named by $VERIF_DRAWS. It is injected into /repo by overlay only.
package verifrt

import (
	"encoding/json"
	"fmt"
	"os"
	"reflect"
	"strings"
	"unsafe"
)

// T carries the draw source of one harness execution.
type T struct {
	draws    map[string]uint64
	missing  []string
	Failed   []string // assertion ids that failed (native)
	Skipped  bool     // an Assume was false (native)
	obs      []string
	reach    []string
	fatal    func(string)
	occ      map[string]int
}

// RuntimeError is the dynamic type of run-time panics raised by the symbolic
// executor (bounds, nil dereference, ...). Natively unused.
type RuntimeError string

func (e RuntimeError) Error() string { return "runtime error: " + string(e) }
func (e RuntimeError) RuntimeError() {}

type stop struct{ why string }

func key(name string, idx []int) string {
	if len(idx) == 0 {
		return name
	}
	var sb strings.Builder
	sb.WriteString(name)
	for _, i := range idx {
		fmt.Fprintf(&sb, "_%d", i)
	}
	return sb.String()
}

func (v *T) draw(name string, idx []int, bits uint) uint64 {
	k := key(name, idx)
	if v.occ == nil {
		v.occ = map[string]int{}
	}
	n := v.occ[k]
	v.occ[k] = n + 1
	if n > 0 {
		k = fmt.Sprintf("%s#%d", k, n)
	}
	x, ok := v.draws[k]
	if !ok {
		v.missing = append(v.missing, k)
	}
	if bits < 64 {
		x &= (1 << bits) - 1
	}
	return x
}

func (v *T) Bool(name string, idx ...int) bool     { return v.draw(name, idx, 1) != 0 }
func (v *T) U8(name string, idx ...int) uint8       { return uint8(v.draw(name, idx, 8)) }
func (v *T) U16(name string, idx ...int) uint16     { return uint16(v.draw(name, idx, 16)) }
func (v *T) U32(name string, idx ...int) uint32     { return uint32(v.draw(name, idx, 32)) }
func (v *T) U64(name string, idx ...int) uint64     { return v.draw(name, idx, 64) }
func (v *T) I64(name string, idx ...int) int64      { return int64(v.draw(name, idx, 64)) }
func (v *T) I32(name string, idx ...int) int32      { return int32(v.draw(name, idx, 32)) }
func (v *T) Int(name string, idx ...int) int        { return int(v.draw(name, idx, 64)) }

// Choice returns a value in [0,n); the symbolic executor forks one path per value.
func (v *T) Choice(n int, name string, idx ...int) int {
	x := int(v.draw(name, idx, 32))
	if x < 0 || x >= n {
		v.Skipped = true
		panic(stop{"choice out of range"})
	}
	return x
}

// Bytes returns n arbitrary bytes.
func (v *T) Bytes(n int, name string, idx ...int) []byte {
	b := make([]byte, n)
	for i := range b {
		b[i] = uint8(v.draw(key(name, idx), []int{i}, 8))
	}
	return b
}

// Assume restricts the explored values; natively a false assumption means the
// draw file does not describe a path of the harness.
func (v *T) Assume(c bool) {
	if !c {
		v.Skipped = true
		panic(stop{"assume"})
	}
}

// Assert states the property. Natively a failure is recorded and ends the run.
func (v *T) Assert(c bool, id string) {
	if !c {
		v.Failed = append(v.Failed, id)
		panic(stop{"assert " + id})
	}
}

// Reach is a vacuity witness: the executor must find a feasible path to it.
func (v *T) Reach(label string) { v.reach = append(v.reach, label) }

// Observe logs a value; symbolic and native logs are compared (translator validation).
func (v *T) Observe(label string, x uint64) {
	v.obs = append(v.obs, fmt.Sprintf("%s=%d", label, x))
}

// Symbolic reports whether the harness runs under the symbolic executor.
func (v *T) Symbolic() bool { return false }

// Try runs f and reports whether it panicked (the panic is contained).
func (v *T) Try(f func()) (panicked bool) {
	defer func() {
		if r := recover(); r != nil {
			if s, ok := r.(stop); ok {
				panic(s)
			}
			panicked = true
		}
	}()
	f()
	return false
}

// Pure boolean helpers: they do not branch under the symbolic executor.
func And(a, b bool) bool { return a && b }
func Or(a, b bool) bool  { return a || b }
func Not(a bool) bool    { return !a }
func Implies(a, b bool) bool { return !a || b }
func B2U(a bool) uint32 {
	if a {
		return 1
	}
	return 0
}

// IteU32 selects without branching.
func IteU32(c bool, a, b uint32) uint32 {
	if c {
		return a
	}
	return b
}

// IteU64 selects without branching.
func IteU64(c bool, a, b uint64) uint64 {
	if c {
		return a
	}
	return b
}

// RunGoroutines lets goroutines started by the code under test run to
// quiescence under the symbolic executor; natively it is a no-op hook that a
// harness may pair with its own synchronisation.
func RunGoroutines() {}

// Result of one native execution.
type Result struct {
	Failed  []string `json:"failed"`
	Skipped bool     `json:"skipped"`
	Panic   string   `json:"panic"`
	Obs     []string `json:"obs"`
	Reach   []string `json:"reach"`
	Missing []string `json:"missing"`
}

// TB is the part of *testing.T used here (keeps "testing" out of non-test builds).
type TB interface {
	Logf(format string, args ...interface{})
	Errorf(format string, args ...interface{})
}

// RunNative executes the harness once per draw file listed in $VERIF_DRAWS
// (colon separated) and writes <file>.result.json for each. The test fails
// (Errorf) when any run fails an assertion or panics, so `go test` exit status
// reflects reproduction.
func RunNative(t TB, name string, entry func(*T)) {
	files := strings.Split(os.Getenv("VERIF_DRAWS"), ":")
	for _, f := range files {
		if f == "" {
			continue
		}
		raw, err := os.ReadFile(f)
		if err != nil {
			t.Errorf("verifrt: %v", err)
			continue
		}
		var in struct {
			Entry string            `json:"entry"`
			Kind  string            `json:"kind"`
			Draws map[string]uint64 `json:"draws"`
		}
		if err := json.Unmarshal(raw, &in); err != nil {
			t.Errorf("verifrt: %s: %v", f, err)
			continue
		}
		if in.Entry != name {
			continue
		}
		// counterexamples may depend on Go's randomised map iteration order (a schedule the
		// symbolic run fixed): they are retried a few times; samples run once
		attempts := 1
		if in.Kind == "cex" || in.Kind == "known" {
			attempts = 12
		}
		var v *T
		res := Result{}
		for a := 0; a < attempts; a++ {
			v = &T{draws: in.Draws}
			res = Result{}
			func() {
				defer func() {
					if r := recover(); r != nil {
						if _, ok := r.(stop); ok {
							return
						}
						res.Panic = fmt.Sprint(r)
					}
				}()
				entry(v)
			}()
			if len(v.Failed) > 0 || res.Panic != "" {
				break
			}
		}
		res.Failed, res.Skipped, res.Obs, res.Reach, res.Missing = v.Failed, v.Skipped, v.obs, v.reach, v.missing
		out, _ := json.Marshal(res)
		os.WriteFile(f+".result.json", out, 0o644)
		if len(res.Failed) > 0 {
			t.Logf("VERIF-ASSERT-FAIL %s file=%s", strings.Join(res.Failed, ","), f)
		}
		if res.Panic != "" {
			t.Logf("VERIF-PANIC %s file=%s", res.Panic, f)
		}
	}
}

// Bound returns a bound declared in the harness spec for the current tier
// (natively it is read from the draw file under "bound:<name>").
func (v *T) Bound(name string) int {
	x, ok := v.draws["bound:"+name]
	if !ok {
		v.missing = append(v.missing, "bound:"+name)
	}
	return int(x)
}

// B2U8 converts without branching.
func B2U8(a bool) uint8 {
	if a {
		return 1
	}
	return 0
}

// SetUnexported sets obj.<path> = val where path is a dot-separated list of field
// names (embedded fields by their type name); nil pointers on the way are allocated.
// It lets a harness build just enough of a dependency's struct (e.g. mesh.Router's
// Ourself.Peer.Name) without running its constructor. obj must be a pointer to a struct.
func SetUnexported(obj interface{}, path string, val interface{}) {
	cur := reflect.ValueOf(obj).Elem()
	names := strings.Split(path, ".")
	for i, n := range names {
		f := cur.FieldByName(n)
		if !f.IsValid() {
			panic("verifrt: no field " + n)
		}
		f = reflect.NewAt(f.Type(), unsafe.Pointer(f.UnsafeAddr())).Elem()
		if i == len(names)-1 {
			f.Set(reflect.ValueOf(val).Convert(f.Type()))
			return
		}
		if f.Kind() == reflect.Ptr {
			if f.IsNil() {
				f.Set(reflect.New(f.Type().Elem()))
			}
			f = f.Elem()
		}
		cur = f
	}
}
