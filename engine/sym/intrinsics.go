package sym

import (
	"fmt"
	"go/types"
	"math"
	"strings"

	"golang.org/x/tools/go/ssa"

	"verif/engine/smt"
	"verif/engine/term"
)

type intrinsic func(ex *Exec, caller *frame, fn *ssa.Function, args []Value) Value

var intrinsics = map[string]intrinsic{}

const rtPkg = "github.com/emitter-io/emitter/internal/verifrt"

func reg(name string, f intrinsic) { intrinsics[name] = f }

func intrinsicsByShort(fn *ssa.Function) (intrinsic, bool) {
	return nil, false
}

func (ex *Exec) drawName(args []Value, nameIdx int) string {
	name, ok := concStr(args[nameIdx].(Str))
	if !ok {
		panic(pathAbort{"engine", "symbolic draw name"})
	}
	var sb strings.Builder
	sb.WriteString(name)
	if len(args) > nameIdx+1 {
		for _, e := range args[nameIdx+1].(Slice).V {
			t := e.(*term.T)
			if t.Op != term.OConst {
				panic(pathAbort{"engine", "symbolic draw index"})
			}
			fmt.Fprintf(&sb, "_%d", t.SignedVal())
		}
	}
	return ex.occName(sb.String())
}

func (ex *Exec) occName(k string) string {
	n := ex.drawOcc[k]
	ex.drawOcc[k] = n + 1
	if n > 0 {
		k = fmt.Sprintf("%s#%d", k, n)
	}
	return k
}

func (ex *Exec) newDraw(name string, w int) *term.T {
	t := ex.tb.Var(name, w)
	ex.draws = append(ex.draws, drawRec{Name: name, T: t, W: w})
	return t
}

func drawInt(w int) intrinsic {
	return func(ex *Exec, caller *frame, fn *ssa.Function, args []Value) Value {
		return ex.newDraw(ex.drawName(args, 1), w)
	}
}

// model returns the values of all draws under the current solver model
// (must follow a Sat check in the same scope).
func (ex *Exec) modelOfDraws() (map[string]uint64, error) {
	var ts []*term.T
	for _, d := range ex.draws {
		if d.T != nil {
			ts = append(ts, d.T)
		}
	}
	vals, err := ex.sol.Values(ts)
	if err != nil {
		return nil, err
	}
	m := map[string]uint64{}
	i := 0
	for _, d := range ex.draws {
		if d.T != nil {
			m[d.Name] = vals[i]
			i++
		} else {
			m[d.Name] = d.Val
		}
	}
	return m, nil
}

func poolItemKey(pool *Value, item Value) interface{} {
	if i, ok := item.(Iface); ok {
		if ip, ok := i.V.(*Value); ok {
			return ip
		}
	}
	return pool
}

func init() {
	T := "(*" + rtPkg + ".T)."
	reg(T+"U8", drawInt(8))
	reg(T+"U16", drawInt(16))
	reg(T+"U32", drawInt(32))
	reg(T+"U64", drawInt(64))
	reg(T+"I64", drawInt(64))
	reg(T+"I32", drawInt(32))
	reg(T+"Int", drawInt(64))
	reg(T+"Bool", func(ex *Exec, caller *frame, fn *ssa.Function, args []Value) Value {
		v := ex.newDraw(ex.drawName(args, 1), 1)
		return ex.tb.Eq(v, ex.tb.Const(1, 1))
	})
	reg(T+"Choice", func(ex *Exec, caller *frame, fn *ssa.Function, args []Value) Value {
		n := int(ex.concretize(args[1].(*term.T), "choice n"))
		name := ex.drawName(args, 2)
		ch := ex.choice(n)
		ex.draws = append(ex.draws, drawRec{Name: name, Val: uint64(ch), W: 32})
		return ex.tb.Const(64, uint64(ch))
	})
	reg(T+"Bytes", func(ex *Exec, caller *frame, fn *ssa.Function, args []Value) Value {
		n := int(ex.concretize(args[1].(*term.T), "bytes n"))
		name, _ := concStr(args[2].(Str))
		var sb strings.Builder
		sb.WriteString(name)
		for _, e := range args[3].(Slice).V {
			fmt.Fprintf(&sb, "_%d", e.(*term.T).SignedVal())
		}
		base := sb.String()
		v := make([]Value, n)
		for i := range v {
			v[i] = ex.newDraw(ex.occName(fmt.Sprintf("%s_%d", base, i)), 8)
		}
		return Slice{V: v}
	})
	reg(T+"Assume", func(ex *Exec, caller *frame, fn *ssa.Function, args []Value) Value {
		c := args[1].(*term.T)
		if c.IsTrue() {
			return nil
		}
		if c.IsFalse() {
			panic(pathAbort{"assume", ""})
		}
		ex.addPC(c)
		if len(ex.decisions) < len(ex.prefix) {
			return nil // replaying a prefix known to be feasible
		}
		r := ex.sol.Check()
		ex.nQueries++
		if r == smt.Unsat {
			panic(pathAbort{"assume", ""})
		}
		if r == smt.Unknown {
			ex.unknownFeas++
		}
		return nil
	})
	reg(T+"Assert", func(ex *Exec, caller *frame, fn *ssa.Function, args []Value) Value {
		id, _ := concStr(args[2].(Str))
		ex.assert(args[1].(*term.T), id)
		return nil
	})
	reg(T+"Reach", func(ex *Exec, caller *frame, fn *ssa.Function, args []Value) Value {
		l, _ := concStr(args[1].(Str))
		if ex.unknownFeas > 0 {
			r := ex.sol.Check()
			ex.nQueries++
			if r != smt.Sat {
				return nil
			}
		}
		ex.reached[l] = true
		return nil
	})
	reg(T+"Observe", func(ex *Exec, caller *frame, fn *ssa.Function, args []Value) Value {
		l, _ := concStr(args[1].(Str))
		ex.observes = append(ex.observes, obsRec{Label: l, T: args[2].(*term.T)})
		return nil
	})
	reg(T+"Bound", func(ex *Exec, caller *frame, fn *ssa.Function, args []Value) Value {
		n, _ := concStr(args[1].(Str))
		b, ok := ex.sh.Bounds[n]
		if !ok {
			panic(pathAbort{"engine", "harness asks for undeclared bound " + n})
		}
		return ex.tb.Const(64, uint64(int64(b)))
	})
	reg(T+"Symbolic", func(ex *Exec, caller *frame, fn *ssa.Function, args []Value) Value {
		return ex.tb.True
	})
	reg(T+"Try", func(ex *Exec, caller *frame, fn *ssa.Function, args []Value) (res Value) {
		saved, sdepth := ex.cur, ex.depth
		res = ex.tb.False
		func() {
			defer func() {
				if r := recover(); r != nil {
					if gp, ok := r.(*goPanic); ok {
						ex.cur, ex.depth = saved, sdepth
						ex.lastPanic = gp.msg
						res = ex.tb.True
						return
					}
					panic(r)
				}
			}()
			ex.callValue(caller, args[1], nil, nil)
		}()
		return res
	})
	// Terminates(id, f): f runs as usual, but a loop that goes round more often than the loop
	// bound allows is the violation `id` (the harness's input is far too small for that many
	// rounds), not an unwinding failure
	reg(T+"Terminates", func(ex *Exec, caller *frame, fn *ssa.Function, args []Value) Value {
		saved := ex.termID
		ex.termID, _ = concStr(args[1].(Str))
		defer func() { ex.termID = saved }()
		ex.callValue(caller, args[2], nil, nil)
		return nil
	})
	reg(rtPkg+".And", func(ex *Exec, caller *frame, fn *ssa.Function, args []Value) Value {
		return ex.tb.BAnd(args[0].(*term.T), args[1].(*term.T))
	})
	reg(rtPkg+".Or", func(ex *Exec, caller *frame, fn *ssa.Function, args []Value) Value {
		return ex.tb.BOr(args[0].(*term.T), args[1].(*term.T))
	})
	reg(rtPkg+".Not", func(ex *Exec, caller *frame, fn *ssa.Function, args []Value) Value {
		return ex.tb.BNot(args[0].(*term.T))
	})
	reg(rtPkg+".Implies", func(ex *Exec, caller *frame, fn *ssa.Function, args []Value) Value {
		return ex.tb.BOr(ex.tb.BNot(args[0].(*term.T)), args[1].(*term.T))
	})
	reg(rtPkg+".B2U", func(ex *Exec, caller *frame, fn *ssa.Function, args []Value) Value {
		return ex.tb.Ite(args[0].(*term.T), ex.tb.Const(32, 1), ex.tb.Const(32, 0))
	})
	ite := func(ex *Exec, caller *frame, fn *ssa.Function, args []Value) Value {
		return ex.tb.Ite(args[0].(*term.T), args[1].(*term.T), args[2].(*term.T))
	}
	reg(rtPkg+".IteU32", ite)
	reg(rtPkg+".IteU64", ite)
	reg(T+"Threads", func(ex *Exec, caller *frame, fn *ssa.Function, args []Value) Value {
		b := args[1].(*term.T)
		if b.Op != term.OConst {
			panic(pathAbort{"engine", "symbolic preemption bound"})
		}
		ex.runThreads(caller, int(b.SignedVal()), args[2].(Slice).V)
		return nil
	})
	reg(rtPkg+".Point", func(ex *Exec, caller *frame, fn *ssa.Function, args []Value) Value {
		ex.schedPoint(nil, "Point")
		return nil
	})
	reg(rtPkg+".RunGoroutines", func(ex *Exec, caller *frame, fn *ssa.Function, args []Value) Value {
		ex.runGoroutines()
		return nil
	})

	// ---- sync ----
	lock := func(write bool) intrinsic {
		return func(ex *Exec, caller *frame, fn *ssa.Function, args []Value) Value {
			p := args[0].(*Value)
			if p == nil {
				panic(ex.goPanicStr("invalid memory address or nil pointer dereference"))
			}
			m := ex.mutexes[p]
			if m == nil {
				m = &mutexState{}
				ex.mutexes[p] = m
			}
			if ex.sched != nil {
				if write {
					ex.schedPoint(func() bool { return m.w == 0 && m.r == 0 }, "Lock"+ex.where())
					m.w = 1
					ex.acquireEdge(p)
					ex.acquireEdge(rdKey{p})
				} else {
					ex.schedPoint(func() bool { return m.w == 0 }, "RLock"+ex.where())
					m.r++
					ex.acquireEdge(p)
				}
				return nil
			}
			if write {
				if m.w > 0 || m.r > 0 {
					panic(pathAbort{"deadlock", "Lock on held mutex" + ex.where()})
				}
				m.w = 1
			} else {
				if m.w > 0 {
					panic(pathAbort{"deadlock", "RLock on write-held mutex" + ex.where()})
				}
				m.r++
			}
			return nil
		}
	}
	unlock := func(write bool) intrinsic {
		return func(ex *Exec, caller *frame, fn *ssa.Function, args []Value) Value {
			p := args[0].(*Value)
			m := ex.mutexes[p]
			if m == nil || (write && m.w == 0) || (!write && m.r == 0) {
				panic(&goPanic{val: Iface{T: types.Typ[types.String], V: ex.mkStr("sync: unlock of unlocked mutex")}, msg: "fatal error: sync: unlock of unlocked mutex" + ex.where()})
			}
			if write {
				m.w = 0
				ex.releaseEdge(p)
			} else {
				m.r--
				ex.releaseEdge(rdKey{p})
			}
			return nil
		}
	}
	reg("(*sync.Mutex).Lock", lock(true))
	reg("(*sync.Mutex).Unlock", unlock(true))
	reg("(*sync.RWMutex).Lock", lock(true))
	reg("(*sync.RWMutex).Unlock", unlock(true))
	reg("(*sync.RWMutex).RLock", lock(false))
	reg("(*sync.RWMutex).RUnlock", unlock(false))
	tryLock := func(ex *Exec, caller *frame, fn *ssa.Function, args []Value) Value {
		p := args[0].(*Value)
		m := ex.mutexes[p]
		if m == nil {
			m = &mutexState{}
			ex.mutexes[p] = m
		}
		ex.schedPoint(nil, "TryLock")
		if m.w > 0 || m.r > 0 {
			return ex.tb.False
		}
		m.w = 1
		ex.acquireEdge(p)
		ex.acquireEdge(rdKey{p})
		return ex.tb.True
	}
	reg("(*sync.Mutex).TryLock", tryLock)
	reg("(*sync.RWMutex).TryLock", tryLock)
	reg("(*sync.RWMutex).TryRLock", func(ex *Exec, caller *frame, fn *ssa.Function, args []Value) Value {
		p := args[0].(*Value)
		m := ex.mutexes[p]
		if m == nil {
			m = &mutexState{}
			ex.mutexes[p] = m
		}
		ex.schedPoint(nil, "TryRLock")
		if m.w > 0 {
			return ex.tb.False
		}
		m.r++
		ex.acquireEdge(p)
		return ex.tb.True
	})
	reg("(*sync.Once).Do", func(ex *Exec, caller *frame, fn *ssa.Function, args []Value) Value {
		p := args[0].(*Value)
		ex.schedPoint(nil, "Once.Do")
		if ex.onces[p] {
			ex.acquireEdge(p)
			return nil
		}
		ex.onces[p] = true
		ex.callValue(caller, args[1], nil, nil)
		ex.releaseEdge(p)
		return nil
	})
	reg("(*sync.Pool).Get", func(ex *Exec, caller *frame, fn *ssa.Function, args []Value) Value {
		p := args[0].(*Value)
		ex.schedPoint(nil, "Pool.Get")
		if l := ex.pools[p]; len(l) > 0 {
			v := l[len(l)-1]
			ex.pools[p] = l[:len(l)-1]
			// Put(x) happens before the Get that returns x (and nothing else)
			ex.acquireEdge(poolItemKey(p, v))
			return v
		}
		// field New is the last field of sync.Pool
		st := (*p).(Struct)
		nf := st[len(st)-1]
		if nf == nil {
			return Iface{}
		}
		return ex.callValue(caller, nf, nil, nil)
	})
	reg("(*sync.Pool).Put", func(ex *Exec, caller *frame, fn *ssa.Function, args []Value) Value {
		p := args[0].(*Value)
		if i, ok := args[1].(Iface); ok && i.T == nil {
			return nil
		}
		ex.schedPoint(nil, "Pool.Put")
		ex.releaseEdge(poolItemKey(p, args[1]))
		ex.pools[p] = append(ex.pools[p], args[1])
		return nil
	})
	reg("(*sync.WaitGroup).Add", func(ex *Exec, caller *frame, fn *ssa.Function, args []Value) Value { return nil })
	reg("(*sync.WaitGroup).Done", func(ex *Exec, caller *frame, fn *ssa.Function, args []Value) Value { return nil })
	reg("(*sync.WaitGroup).Wait", func(ex *Exec, caller *frame, fn *ssa.Function, args []Value) Value {
		ex.runGoroutines()
		return nil
	})
	// sync.Map as an association list keyed by the map's address
	smap := func(ex *Exec, p *Value) *Map {
		m, ok := ex.sidecar[fmt.Sprintf("syncmap:%p", p)].(*Map)
		if !ok {
			m = newMap(nil)
			ex.sidecar[fmt.Sprintf("syncmap:%p", p)] = m
		}
		return m
	}
	reg("(*sync.Map).Load", func(ex *Exec, caller *frame, fn *ssa.Function, args []Value) Value {
		v, ok := ex.mapGet(smap(ex, args[0].(*Value)), args[1])
		if !ok {
			return Tuple{Iface{}, ex.tb.False}
		}
		return Tuple{v, ex.tb.True}
	})
	reg("(*sync.Map).Store", func(ex *Exec, caller *frame, fn *ssa.Function, args []Value) Value {
		ex.mapSet(smap(ex, args[0].(*Value)), args[1], args[2])
		return nil
	})
	reg("(*sync.Map).LoadOrStore", func(ex *Exec, caller *frame, fn *ssa.Function, args []Value) Value {
		m := smap(ex, args[0].(*Value))
		if v, ok := ex.mapGet(m, args[1]); ok {
			return Tuple{v, ex.tb.True}
		}
		ex.mapSet(m, args[1], args[2])
		return Tuple{args[2], ex.tb.False}
	})
	reg("(*sync.Map).Delete", func(ex *Exec, caller *frame, fn *ssa.Function, args []Value) Value {
		ex.mapDelete(smap(ex, args[0].(*Value)), args[1])
		return nil
	})
	reg("(*sync.Map).LoadAndDelete", func(ex *Exec, caller *frame, fn *ssa.Function, args []Value) Value {
		m := smap(ex, args[0].(*Value))
		v, ok := ex.mapGet(m, args[1])
		if !ok {
			return Tuple{Iface{}, ex.tb.False}
		}
		ex.mapDelete(m, args[1])
		return Tuple{v, ex.tb.True}
	})
	reg("(*sync.Map).Range", func(ex *Exec, caller *frame, fn *ssa.Function, args []Value) Value {
		m := smap(ex, args[0].(*Value))
		for i := 0; i < len(m.entries); i++ {
			e := m.entries[i]
			if e.deleted {
				continue
			}
			r := ex.callValue(caller, args[1], []Value{e.k, e.v}, nil).(*term.T)
			if !ex.branch(r) {
				break
			}
		}
		return nil
	})

	// ---- sync/atomic ----
	areg := func(name string, f intrinsic) {
		reg(name, func(ex *Exec, caller *frame, fn *ssa.Function, args []Value) Value {
			if ex.sched == nil {
				return f(ex, caller, fn, args)
			}
			ex.schedPoint(nil, "atomic")
			ex.acquireEdge(args[0])
			ex.noTouch++
			defer func() { ex.noTouch--; ex.releaseEdge(args[0]) }()
			return f(ex, caller, fn, args)
		})
	}
	for _, ty := range []string{"Int32", "Int64", "Uint32", "Uint64", "Uintptr"} {
		reg := areg
		reg("sync/atomic.Add"+ty, func(ex *Exec, caller *frame, fn *ssa.Function, args []Value) Value {
			old := ex.load(args[0], nil).(*term.T)
			nv := ex.tb.Add(old, args[1].(*term.T))
			ex.store(args[0], nv)
			return nv
		})
		reg("sync/atomic.Load"+ty, func(ex *Exec, caller *frame, fn *ssa.Function, args []Value) Value {
			return ex.load(args[0], nil)
		})
		reg("sync/atomic.Store"+ty, func(ex *Exec, caller *frame, fn *ssa.Function, args []Value) Value {
			ex.store(args[0], args[1])
			return nil
		})
		reg("sync/atomic.Swap"+ty, func(ex *Exec, caller *frame, fn *ssa.Function, args []Value) Value {
			old := ex.load(args[0], nil)
			ex.store(args[0], args[1])
			return old
		})
		reg("sync/atomic.CompareAndSwap"+ty, func(ex *Exec, caller *frame, fn *ssa.Function, args []Value) Value {
			old := ex.load(args[0], nil).(*term.T)
			if ex.branch(ex.tb.Eq(old, args[1].(*term.T))) {
				ex.store(args[0], args[2])
				return ex.tb.True
			}
			return ex.tb.False
		})
	}
	areg("sync/atomic.LoadPointer", func(ex *Exec, caller *frame, fn *ssa.Function, args []Value) Value {
		return ex.load(args[0], nil)
	})
	areg("sync/atomic.StorePointer", func(ex *Exec, caller *frame, fn *ssa.Function, args []Value) Value {
		ex.store(args[0], args[1])
		return nil
	})
	areg("(*sync/atomic.Value).Load", func(ex *Exec, caller *frame, fn *ssa.Function, args []Value) Value {
		v, ok := ex.sidecar[fmt.Sprintf("atomicval:%p", args[0].(*Value))]
		if !ok {
			return Iface{}
		}
		return v
	})
	areg("(*sync/atomic.Value).Store", func(ex *Exec, caller *frame, fn *ssa.Function, args []Value) Value {
		ex.sidecar[fmt.Sprintf("atomicval:%p", args[0].(*Value))] = args[1]
		return nil
	})

	// ---- runtime / abi / misc ----
	noop := func(ex *Exec, caller *frame, fn *ssa.Function, args []Value) Value {
		return ex.zeroResults(fn.Signature)
	}
	for _, n := range []string{"runtime.Gosched", "runtime.KeepAlive", "runtime.SetFinalizer", "runtime.GC", "time.Sleep",
		"internal/race.Acquire", "internal/race.Release", "internal/race.ReleaseMerge", "internal/race.Disable", "internal/race.Enable",
		"internal/race.Read", "internal/race.Write", "internal/race.ReadRange", "internal/race.WriteRange", "runtime/debug.PrintStack",
		"os.Exit"} {
		reg(n, noop)
	}
	reg("runtime/debug.Stack", func(ex *Exec, caller *frame, fn *ssa.Function, args []Value) Value {
		return Slice{V: []Value{}}
	})
	reg("internal/abi.NoEscape", func(ex *Exec, caller *frame, fn *ssa.Function, args []Value) Value { return args[0] })
	reg("internal/abi.Escape", func(ex *Exec, caller *frame, fn *ssa.Function, args []Value) Value { return args[0] })
	reg("runtime.GOMAXPROCS", func(ex *Exec, caller *frame, fn *ssa.Function, args []Value) Value { return ex.tb.Const(64, 1) })
	reg("runtime.NumCPU", func(ex *Exec, caller *frame, fn *ssa.Function, args []Value) Value { return ex.tb.Const(64, 1) })

	// ---- bytealg ----
	reg("internal/bytealg.IndexByte", func(ex *Exec, caller *frame, fn *ssa.Function, args []Value) Value {
		return ex.indexByte(args[0].(Slice).V, args[1].(*term.T))
	})
	reg("internal/bytealg.IndexByteString", func(ex *Exec, caller *frame, fn *ssa.Function, args []Value) Value {
		return ex.indexByte(args[0].(Str).B, args[1].(*term.T))
	})
	reg("internal/bytealg.CountString", func(ex *Exec, caller *frame, fn *ssa.Function, args []Value) Value {
		return ex.countByte(args[0].(Str).B, args[1].(*term.T))
	})
	reg("internal/bytealg.Count", func(ex *Exec, caller *frame, fn *ssa.Function, args []Value) Value {
		return ex.countByte(args[0].(Slice).V, args[1].(*term.T))
	})
	reg("internal/bytealg.Equal", func(ex *Exec, caller *frame, fn *ssa.Function, args []Value) Value {
		return ex.equals(Str{B: args[0].(Slice).V}, Str{B: args[1].(Slice).V})
	})
	reg("bytes.Equal", func(ex *Exec, caller *frame, fn *ssa.Function, args []Value) Value {
		return ex.equals(Str{B: args[0].(Slice).V}, Str{B: args[1].(Slice).V})
	})
	reg("internal/bytealg.Compare", func(ex *Exec, caller *frame, fn *ssa.Function, args []Value) Value {
		return ex.compareBytes(args[0].(Slice).V, args[1].(Slice).V)
	})
	reg("bytes.Compare", func(ex *Exec, caller *frame, fn *ssa.Function, args []Value) Value {
		return ex.compareBytes(args[0].(Slice).V, args[1].(Slice).V)
	})
	reg("internal/bytealg.CompareString", func(ex *Exec, caller *frame, fn *ssa.Function, args []Value) Value {
		return ex.compareBytes(args[0].(Str).B, args[1].(Str).B)
	})
	reg("internal/bytealg.MakeNoZero", func(ex *Exec, caller *frame, fn *ssa.Function, args []Value) Value {
		n := int(ex.concretize(args[0].(*term.T), "MakeNoZero"))
		v := make([]Value, n)
		z := ex.tb.Const(8, 0)
		for i := range v {
			v[i] = z
		}
		return Slice{V: v}
	})
	reg("internal/stringslite.Clone", func(ex *Exec, caller *frame, fn *ssa.Function, args []Value) Value { return args[0] })
	reg("strings.Clone", func(ex *Exec, caller *frame, fn *ssa.Function, args []Value) Value { return args[0] })

	// ---- math ----
	reg("math.Float64bits", func(ex *Exec, caller *frame, fn *ssa.Function, args []Value) Value {
		return ex.tb.Const(64, math.Float64bits(args[0].(Float).V))
	})
	reg("math.Float64frombits", func(ex *Exec, caller *frame, fn *ssa.Function, args []Value) Value {
		t := args[0].(*term.T)
		if t.Op != term.OConst {
			panic(ex.unsupported("symbolic Float64frombits"))
		}
		return Float{math.Float64frombits(t.V)}
	})
	reg("math.Float32bits", func(ex *Exec, caller *frame, fn *ssa.Function, args []Value) Value {
		return ex.tb.Const(32, uint64(math.Float32bits(float32(args[0].(Float).V))))
	})
	reg("math.Float32frombits", func(ex *Exec, caller *frame, fn *ssa.Function, args []Value) Value {
		t := args[0].(*term.T)
		if t.Op != term.OConst {
			panic(ex.unsupported("symbolic Float32frombits"))
		}
		return Float{float64(math.Float32frombits(uint32(t.V)))}
	})
	for n, f := range map[string]func(float64) float64{"math.Floor": math.Floor, "math.Ceil": math.Ceil, "math.Sqrt": math.Sqrt, "math.Abs": math.Abs, "math.Log": math.Log, "math.Exp": math.Exp, "math.Trunc": math.Trunc} {
		f := f
		reg(n, func(ex *Exec, caller *frame, fn *ssa.Function, args []Value) Value { return Float{f(args[0].(Float).V)} })
	}

	// ---- time ----
	reg("time.Now", func(ex *Exec, caller *frame, fn *ssa.Function, args []Value) Value { return ex.timeNow() })
	reg("time.Since", func(ex *Exec, caller *frame, fn *ssa.Function, args []Value) Value {
		return ex.tb.Const(64, 0)
	})
	reg("time.runtimeNano", func(ex *Exec, caller *frame, fn *ssa.Function, args []Value) Value { return ex.tb.Const(64, 0) })

	// ---- fmt / errors ----
	reg("fmt.Sprintf", func(ex *Exec, caller *frame, fn *ssa.Function, args []Value) Value {
		return ex.sprintf(args[0].(Str), args[1].(Slice).V)
	})
	reg("fmt.Sprint", func(ex *Exec, caller *frame, fn *ssa.Function, args []Value) Value {
		var out []Value
		for _, a := range args[0].(Slice).V {
			out = append(out, ex.fmtValue(a, 'v').B...)
		}
		return Str{B: out}
	})
	reg("fmt.Errorf", func(ex *Exec, caller *frame, fn *ssa.Function, args []Value) Value {
		s := ex.sprintf(args[0].(Str), args[1].(Slice).V)
		return ex.newError(caller, s)
	})
	for _, n := range []string{"fmt.Println", "fmt.Printf", "fmt.Print", "fmt.Fprintf", "fmt.Fprintln", "fmt.Fprint", "log.Printf", "log.Println", "log.Print"} {
		reg(n, noop)
	}
}

func (ex *Exec) newError(caller *frame, s Str) Value {
	pkg := ex.prog.ImportedPackage("errors")
	if pkg == nil {
		panic(ex.unsupported("errors package not loaded"))
	}
	return ex.callFn(caller, pkg.Func("New"), []Value{s})
}

func (ex *Exec) indexByte(b []Value, c *term.T) Value {
	tb := ex.tb
	res := tb.Const(64, ^uint64(0))
	for i := len(b) - 1; i >= 0; i-- {
		res = tb.Ite(tb.Eq(b[i].(*term.T), c), tb.Const(64, uint64(i)), res)
	}
	return res
}

func (ex *Exec) countByte(b []Value, c *term.T) Value {
	tb := ex.tb
	res := tb.Const(64, 0)
	for i := range b {
		res = tb.Add(res, tb.Ite(tb.Eq(b[i].(*term.T), c), tb.Const(64, 1), tb.Const(64, 0)))
	}
	return res
}

func (ex *Exec) compareBytes(a, b []Value) Value {
	tb := ex.tb
	n := len(a)
	if len(b) < n {
		n = len(b)
	}
	var res *term.T
	switch {
	case len(a) < len(b):
		res = tb.Const(64, ^uint64(0))
	case len(a) > len(b):
		res = tb.Const(64, 1)
	default:
		res = tb.Const(64, 0)
	}
	for i := n - 1; i >= 0; i-- {
		x, y := a[i].(*term.T), b[i].(*term.T)
		res = tb.Ite(tb.Cmp(term.OUlt, x, y), tb.Const(64, ^uint64(0)), tb.Ite(tb.Eq(x, y), res, tb.Const(64, 1)))
	}
	return res
}

const unixToInternal = (1969*365 + 1969/4 - 1969/100 + 1969/400) * 86400

func (ex *Exec) timeNow() Value {
	tb := ex.tb
	if ex.inInit > 0 {
		return Struct{tb.Const(64, 0), tb.Const(64, uint64(ex.NowBase+unixToInternal)), (*Value)(nil)}
	}
	ex.nowCount++
	sec := ex.newDraw(ex.occName("now"), 64)
	lo := tb.Const(64, uint64(ex.NowBase))
	win := ex.sh.NowWindow
	if win <= 0 {
		win = 3600
	}
	hi := tb.Const(64, uint64(ex.NowBase+win))
	c := tb.BAnd(tb.Cmp(term.OSle, lo, sec), tb.Cmp(term.OSle, sec, hi))
	if ex.lastNow != nil {
		c = tb.BAnd(c, tb.Cmp(term.OSle, ex.lastNow, sec))
	}
	ex.addPC(c)
	ex.lastNow = sec
	ext := tb.Add(sec, tb.Const(64, uint64(unixToInternal)))
	return Struct{tb.Const(64, 0), ext, (*Value)(nil)}
}

// sprintf supports %s %v %d %x %q %% on concrete-or-symbolic simple values;
// anything else renders as a placeholder (formatting is never the subject here).
func (ex *Exec) sprintf(format Str, args []Value) Str {
	f, ok := concStr(format)
	if !ok {
		return ex.mkStr("<fmt>")
	}
	var out []Value
	ai := 0
	for i := 0; i < len(f); i++ {
		if f[i] != '%' {
			out = append(out, ex.byteConst[f[i]])
			continue
		}
		i++
		for i < len(f) && strings.ContainsRune("+-# 0123456789.", rune(f[i])) {
			i++
		}
		if i >= len(f) {
			break
		}
		if f[i] == '%' {
			out = append(out, ex.byteConst['%'])
			continue
		}
		if ai < len(args) {
			out = append(out, ex.fmtValue(args[ai], f[i]).B...)
			ai++
		}
	}
	return Str{B: out}
}

func (ex *Exec) fmtValue(v Value, verb byte) Str {
	switch x := v.(type) {
	case Iface:
		if x.T == nil {
			return ex.mkStr("<nil>")
		}
		// error / Stringer
		if ms := ex.prog.MethodSets.MethodSet(x.T); ms != nil {
			for _, mn := range []string{"Error", "String"} {
				if sel := ms.Lookup(nil, mn); sel != nil {
					if sig, ok := sel.Type().(*types.Signature); ok && sig.Params().Len() == 0 && sig.Results().Len() == 1 && isString(sig.Results().At(0).Type()) {
						fn := ex.prog.MethodValue(sel)
						if fn != nil {
							if r, ok := ex.callFn(ex.cur, fn, []Value{x.V}).(Str); ok {
								return r
							}
						}
					}
				}
			}
		}
		return ex.fmtValue(x.V, verb)
	case Str:
		return x
	case *term.T:
		if x.Op == term.OConst {
			if verb == 'x' {
				return ex.mkStr(fmt.Sprintf("%x", x.V))
			}
			return ex.mkStr(fmt.Sprint(x.V))
		}
		if x.IsConst() {
			return ex.mkStr(fmt.Sprint(x.IsTrue()))
		}
		return ex.mkStr("<sym>")
	case Slice:
		if verb == 's' {
			return Str{B: x.V}
		}
	}
	return ex.mkStr("<val>")
}

// pack64 packs byte cells into 64-bit big-endian words.
func (ex *Exec) pack64(b []Value) []*term.T {
	tb := ex.tb
	var out []*term.T
	for i := 0; i < len(b); i += 8 {
		var w *term.T
		for j := i; j < i+8 && j < len(b); j++ {
			x := b[j].(*term.T)
			if w == nil {
				w = x
			} else {
				w = tb.Concat(w, x)
			}
		}
		out = append(out, tb.ZExt(w, 64))
	}
	return out
}

func init() {
	// Stream cipher contract: out[i] = in[i] XOR KS_i(counter, key), keystream uninterpreted
	// (the amd64 build of x/crypto/salsa20/salsa is assembly). Valid for len(in) <= 64
	// (one block: the keystream does not depend on the data or on a block counter carry).
	reg("golang.org/x/crypto/salsa20/salsa.XORKeyStream", func(ex *Exec, caller *frame, fn *ssa.Function, args []Value) Value {
		out := args[0].(Slice).V
		in := args[1].(Slice).V
		if len(in) > 64 {
			panic(ex.unsupported("salsa.XORKeyStream over more than one block"))
		}
		if len(out) < len(in) {
			panic(ex.goPanicStr("index out of range (XORKeyStream dst too short)"))
		}
		cw := ex.pack64([]Value((*args[2].(*Value)).(Array)))
		kw := ex.pack64([]Value((*args[3].(*Value)).(Array)))
		tb := ex.tb
		res := make([]*term.T, len(in))
		for i := range in {
			ua := append([]*term.T{tb.Const(64, uint64(i))}, cw...)
			ua = append(ua, kw...)
			res[i] = tb.Xor(in[i].(*term.T), tb.UF("salsa20.keystream", 8, ua...))
		}
		for i := range res {
			out[i] = res[i]
		}
		return nil
	})
}

func init() {
	reg("github.com/kelindar/binary.ToBytes", func(ex *Exec, caller *frame, fn *ssa.Function, args []Value) Value {
		s := args[0].(Str)
		if len(s.B) == 0 {
			return Slice{}
		}
		return Slice{V: s.B}
	})
	reg("github.com/kelindar/binary.ToString", func(ex *Exec, caller *frame, fn *ssa.Function, args []Value) Value {
		p := args[0].(*Value)
		s := (*p).(Slice)
		return Str{B: s.V[:len(s.V):len(s.V)]}
	})
}

func init() {
	// randomness = arbitrary values (symbolic draws named rand#k); concrete during package init
	reg("crypto/rand.Read", func(ex *Exec, caller *frame, fn *ssa.Function, args []Value) Value {
		b := args[0].(Slice).V
		for i := range b {
			if ex.inInit > 0 {
				b[i] = ex.tb.Const(8, uint64(0xA5^i))
			} else {
				b[i] = ex.newDraw(ex.occName("rand8"), 8)
			}
		}
		return Tuple{ex.tb.Const(64, uint64(len(b))), Iface{}}
	})
	rnd := func(w int, bound func(ex *Exec, args []Value) *term.T, signedNonNeg bool) intrinsic {
		return func(ex *Exec, caller *frame, fn *ssa.Function, args []Value) Value {
			if ex.inInit > 0 {
				return ex.tb.Const(w, 1)
			}
			x := ex.newDraw(ex.occName(fmt.Sprintf("rand%d", w)), w)
			if signedNonNeg {
				ex.addPC(ex.tb.Cmp(term.OSle, ex.tb.Const(w, 0), x))
			}
			if bound != nil {
				ex.addPC(ex.tb.Cmp(term.OSlt, x, bound(ex, args)))
			}
			return x
		}
	}
	arg0 := func(ex *Exec, args []Value) *term.T { return args[0].(*term.T) }
	reg("math/rand.Int31n", rnd(32, arg0, true))
	reg("math/rand.Int63n", rnd(64, arg0, true))
	reg("math/rand.Intn", rnd(64, arg0, true))
	reg("math/rand.Int31", rnd(32, nil, true))
	reg("math/rand.Int63", rnd(64, nil, true))
	reg("math/rand.Int", rnd(64, nil, true))
	reg("math/rand.Uint32", rnd(32, nil, false))
	reg("math/rand.Uint64", rnd(64, nil, false))
}

func init() {
	// substring search (assembly in the runtime): first index of sep in s, or -1
	index := func(ex *Exec, s, sep []Value) Value {
		tb := ex.tb
		res := tb.Const(64, ^uint64(0))
		if len(sep) == 0 {
			return tb.Const(64, 0)
		}
		for i := len(s) - len(sep); i >= 0; i-- {
			m := tb.True
			for j := range sep {
				m = tb.BAnd(m, tb.Eq(s[i+j].(*term.T), sep[j].(*term.T)))
				if m.IsFalse() {
					break
				}
			}
			res = tb.Ite(m, tb.Const(64, uint64(i)), res)
		}
		return res
	}
	reg("internal/bytealg.Index", func(ex *Exec, caller *frame, fn *ssa.Function, args []Value) Value {
		return index(ex, args[0].(Slice).V, args[1].(Slice).V)
	})
	reg("internal/bytealg.IndexString", func(ex *Exec, caller *frame, fn *ssa.Function, args []Value) Value {
		return index(ex, args[0].(Str).B, args[1].(Str).B)
	})
	// crypto/rand.Int(reader, max): an arbitrary value below max (max's low word must be concrete)
	reg("crypto/rand.Int", func(ex *Exec, caller *frame, fn *ssa.Function, args []Value) Value {
		tb := ex.tb
		maxp := args[1].(*Value)
		abs := (*maxp).(Struct)[1].(Slice).V
		x := ex.newDraw(ex.occName("randint"), 64)
		if len(abs) == 1 {
			ex.addPC(tb.Cmp(term.OUlt, x, abs[0].(*term.T)))
		} else {
			panic(ex.unsupported("crypto/rand.Int with multi-word max"))
		}
		p := new(Value)
		*p = Struct{tb.False, Slice{V: []Value{x}}}
		return Tuple{p, Iface{}}
	})
}

func init() {
	// sort.Slice: insertion sort driven by the real less closure (reflection-free).
	// The order of elements that compare equal is the insertion-sort order (stated in DESIGN).
	sortSlice := func(ex *Exec, caller *frame, fn *ssa.Function, args []Value) Value {
		s := args[0].(Iface).V.(Slice).V
		less := args[1]
		tb := ex.tb
		for i := 1; i < len(s); i++ {
			for j := i; j > 0; j-- {
				r := ex.callValue(caller, less, []Value{tb.Const(64, uint64(j)), tb.Const(64, uint64(j-1))}, nil).(*term.T)
				if !ex.branch(r) {
					break
				}
				s[j], s[j-1] = s[j-1], s[j]
			}
		}
		return nil
	}
	reg("sort.Slice", sortSlice)
	reg("sort.SliceStable", sortSlice)
}

func init() {
	reg(rtPkg+".SetUnexported", func(ex *Exec, caller *frame, fn *ssa.Function, args []Value) Value {
		obj := args[0].(Iface)
		path, _ := concStr(args[1].(Str))
		val := args[2].(Iface)
		pt, ok := obj.T.Underlying().(*types.Pointer)
		if !ok {
			panic(pathAbort{"engine", "SetUnexported: object is not a pointer"})
		}
		curT := pt.Elem()
		curP := obj.V.(*Value)
		names := strings.Split(path, ".")
		for i, n := range names {
			st, ok := curT.Underlying().(*types.Struct)
			if !ok {
				panic(pathAbort{"engine", "SetUnexported: not a struct at " + n})
			}
			idx := -1
			for k := 0; k < st.NumFields(); k++ {
				if st.Field(k).Name() == n {
					idx = k
				}
			}
			if idx < 0 {
				panic(pathAbort{"engine", "SetUnexported: no field " + n})
			}
			cell := &(*curP).(Struct)[idx]
			ft := st.Field(idx).Type()
			if i == len(names)-1 {
				*cell = copyVal(val.V)
				return nil
			}
			if fp, isPtr := ft.Underlying().(*types.Pointer); isPtr {
				p, _ := (*cell).(*Value)
				if p == nil {
					p = new(Value)
					*p = ex.zero(fp.Elem())
					*cell = p
				}
				curP, curT = p, fp.Elem()
			} else {
				curP, curT = cell, ft
			}
		}
		return nil
	})
}

// ---- minimal reflect (enough for kelindar/binary custom codecs called directly) ----

type rvRec struct {
	iface Iface      // value form
	ptr   *Value     // addressable form (Elem of a pointer)
	elemT types.Type // type of *ptr
}

func init() {
	rvOf := func(v Value) rvRec {
		o, ok := v.(Opaque)
		if !ok || o.Tag != "reflect.Value" {
			panic(pathAbort{"unsupported", "reflect.Value not produced by reflect.ValueOf/Elem"})
		}
		return o.V.(rvRec)
	}
	reg("reflect.ValueOf", func(ex *Exec, caller *frame, fn *ssa.Function, args []Value) Value {
		return Opaque{Tag: "reflect.Value", V: rvRec{iface: args[0].(Iface)}}
	})
	reg("(reflect.Value).Interface", func(ex *Exec, caller *frame, fn *ssa.Function, args []Value) Value {
		r := rvOf(args[0])
		if r.ptr != nil {
			return Iface{T: r.elemT, V: copyVal(*r.ptr)}
		}
		return r.iface
	})
	reg("(reflect.Value).Elem", func(ex *Exec, caller *frame, fn *ssa.Function, args []Value) Value {
		r := rvOf(args[0])
		pt, ok := r.iface.T.Underlying().(*types.Pointer)
		if r.ptr != nil || !ok {
			panic(pathAbort{"unsupported", "reflect.Value.Elem on a non-pointer"})
		}
		p, _ := r.iface.V.(*Value)
		if p == nil {
			panic(ex.goPanicStr("reflect: call of reflect.Value.Elem on nil pointer"))
		}
		return Opaque{Tag: "reflect.Value", V: rvRec{ptr: p, elemT: pt.Elem()}}
	})
	reg("(reflect.Value).Field", func(ex *Exec, caller *frame, fn *ssa.Function, args []Value) Value {
		r := rvOf(args[0])
		it := args[1].(*term.T)
		if it.Op != term.OConst {
			panic(pathAbort{"unsupported", "reflect.Value.Field with a symbolic index"})
		}
		i := int(it.V)
		if r.ptr != nil {
			st, ok := r.elemT.Underlying().(*types.Struct)
			if !ok || i >= st.NumFields() {
				panic(ex.goPanicStr("reflect: Field of non-struct or index out of range"))
			}
			return Opaque{Tag: "reflect.Value", V: rvRec{ptr: &(*r.ptr).(Struct)[i], elemT: st.Field(i).Type()}}
		}
		st, ok := r.iface.T.Underlying().(*types.Struct)
		if !ok || i >= st.NumFields() {
			panic(ex.goPanicStr("reflect: Field of non-struct or index out of range"))
		}
		return Opaque{Tag: "reflect.Value", V: rvRec{iface: Iface{T: st.Field(i).Type(), V: r.iface.V.(Struct)[i]}}}
	})
	rvVal := func(r rvRec) (Value, types.Type) {
		if r.ptr != nil {
			return *r.ptr, r.elemT
		}
		return r.iface.V, r.iface.T
	}
	reg("(reflect.Value).Bytes", func(ex *Exec, caller *frame, fn *ssa.Function, args []Value) Value {
		v, t := rvVal(rvOf(args[0]))
		sl, ok := t.Underlying().(*types.Slice)
		if !ok || !types.Identical(sl.Elem().Underlying(), types.Typ[types.Uint8]) {
			panic(ex.goPanicStr("reflect: call of reflect.Value.Bytes on non-byte-slice Value"))
		}
		return v
	})
	reg("(reflect.Value).Uint", func(ex *Exec, caller *frame, fn *ssa.Function, args []Value) Value {
		v, t := rvVal(rvOf(args[0]))
		b, ok := t.Underlying().(*types.Basic)
		if !ok || b.Info()&types.IsUnsigned == 0 {
			panic(ex.goPanicStr("reflect: call of reflect.Value.Uint on non-unsigned Value"))
		}
		return ex.tb.ZExt(v.(*term.T), 64)
	})
	reg("(reflect.Value).Set", func(ex *Exec, caller *frame, fn *ssa.Function, args []Value) Value {
		dst, src := rvOf(args[0]), rvOf(args[1])
		if dst.ptr == nil {
			panic(ex.goPanicStr("reflect: reflect.Value.Set using unaddressable value"))
		}
		var v Value
		if src.ptr != nil {
			v = copyVal(*src.ptr)
		} else {
			v = copyVal(src.iface.V)
		}
		ex.store(dst.ptr, v)
		return nil
	})
}
