package sym

import (
	"fmt"
	"go/constant"
	"go/token"
	"go/types"
	"math"
	"os"
	"strings"
	"time"

	"golang.org/x/tools/go/ssa"

	"verif/engine/smt"
	"verif/engine/term"
)

// ---------- engine-level control flow (Go panics) ----------

// goPanic is an interpreted Go panic travelling up the interpreted stack.
type goPanic struct {
	val Value // Iface
	msg string
}

// pathAbort ends the current path (not an interpreted panic: defers do not run).
type pathAbort struct {
	kind string // "assume", "unsupported", "unwind", "budget", "blocked", "stop"
	msg  string
}

func (ex *Exec) unsupported(what string) pathAbort {
	return pathAbort{"unsupported", what + ex.where()}
}

func (ex *Exec) where() string {
	if ex.cur == nil {
		return ""
	}
	var sb strings.Builder
	n := 0
	for fr := ex.cur; fr != nil && n < 6; fr = fr.caller {
		pos := ""
		if fr.lastInstr != nil {
			if p := fr.lastInstr.Pos(); p.IsValid() {
				pp := ex.prog.Fset.Position(p)
				pos = fmt.Sprintf("%s:%d", shortFile(pp.Filename), pp.Line)
			}
		}
		fmt.Fprintf(&sb, " <- %s(%s)", fr.fn.String(), pos)
		n++
	}
	return sb.String()
}

func shortFile(f string) string {
	if i := strings.LastIndex(f, "/"); i >= 0 {
		if j := strings.LastIndex(f[:i], "/"); j >= 0 {
			return f[j+1:]
		}
	}
	return f
}

func (ex *Exec) goPanicStr(msg string) *goPanic {
	var v Value
	if ex.rtErrType != nil {
		v = Iface{T: ex.rtErrType, V: ex.mkStr(msg)}
	} else {
		v = Iface{T: types.Typ[types.String], V: ex.mkStr(msg)}
	}
	if os.Getenv("GOSYM_PANICTRACE") != "" {
		fmt.Fprintf(os.Stderr, "PANIC runtime error: %s%s\n", msg, ex.where())
	}
	return &goPanic{val: v, msg: "runtime error: " + msg + ex.where()}
}

// ---------- executor ----------

type deferred struct {
	fn   Value
	args []Value
	instr *ssa.Defer
}

type frame struct {
	fn        *ssa.Function
	info      *fnInfo
	env       []Value
	block     *ssa.BasicBlock
	prev      *ssa.BasicBlock
	defers    []deferred
	result    Value
	panicking bool
	panicVal  *goPanic
	caller    *frame
	lastInstr ssa.Instruction
	visits    map[*ssa.BasicBlock]int
}

type fnInfo struct {
	idx map[ssa.Value]int
	n   int
}

// Shared holds the immutable, shared-by-all-workers program data.
type Shared struct {
	Prog      *ssa.Program
	Pkgs      []*ssa.Package
	InitAllow map[string]bool // package paths whose init functions are executed
	Noop      map[string]bool // function names treated as no-ops returning zero values
	SchedPkgs map[string]bool // packages whose synchronisation operations have replay points (nil: no restriction)
	AtomicFns map[string]bool // functions executed without scheduling points / race tracking (treated as one atomic action)
	Subst     map[string]*ssa.Function // function name -> harness replacement
	UFs       map[string]bool // function names summarised as uninterpreted functions
	RtErrType types.Type
	VerifT    string // package path of verifrt
	LoopBound int
	InstrBudget int64
	Known     []KnownRegion
	Bounds    map[string]int
	NowBase   int64
	Deadline  time.Time
	AllocBound int64
	NowWindow int64
	Property  string
	FreshMs   int
	fnInfos   syncMap
}

// Clone returns a copy with its own function-info cache.
func (sh *Shared) Clone() *Shared {
	return &Shared{Prog: sh.Prog, Pkgs: sh.Pkgs, InitAllow: sh.InitAllow, Noop: sh.Noop, AtomicFns: sh.AtomicFns, SchedPkgs: sh.SchedPkgs, Subst: sh.Subst, UFs: sh.UFs, RtErrType: sh.RtErrType,
		AllocBound: sh.AllocBound, NowWindow: sh.NowWindow, Property: sh.Property, FreshMs: sh.FreshMs, VerifT: sh.VerifT, LoopBound: sh.LoopBound, InstrBudget: sh.InstrBudget, Known: sh.Known, Bounds: sh.Bounds, NowBase: sh.NowBase, Deadline: sh.Deadline}
}

type Exec struct {
	sh     *Shared
	prog   *ssa.Program
	tb     *term.B
	sol    *smt.Solver
	rtErrType types.Type

	// per path
	cur       *frame
	globals   map[*ssa.Global]*Value
	inited    map[*ssa.Package]bool
	pc        []*term.T
	prefix    []int32
	decisions []int32
	forced    []bool
	sites     []string
	siblings  [][]int32
	draws     []drawRec
	drawOcc   map[string]int
	observes  []obsRec
	reached   map[string]bool
	asserts   []assertRec
	steps     int64
	depth     int
	mutexes   map[*Value]*mutexState
	pools     map[*Value][]Value
	gos       []func()
	parked    []func()
	gosDyn    []bool // parallel to gos: started by a goroutine during a drain
	nowCount  int
	lastNow   *term.T
	funcsSeen map[*ssa.Function]bool
	strCache  map[string]Str
	byteConst [256]*term.T
	constCache map[*ssa.Const]Value
	tryDepth  int
	sched     *sched
	noTouch   int
	noSched   int
	schedPoints  int
	preemptsUsed int
	raceChecks   int64
	noPrune   bool
	hooks     *Hooks
	uniq      int
	sidecar   map[string]interface{}
	entryName string
	nQueries  int
	unknownFeas int
	uninit    map[string]bool
	allocElems int64
	steer      *term.T // preferred region for the model of the next violated assertion (optional)
	steerVal   *term.T // term whose model value is reported with that assertion
	steerNote  string
	inGos      bool // service goroutines are running (no nested runs)
	termID     string // inside verifrt.T.Terminates: the assertion a loop-bound overrun violates
	onces     map[*Value]bool
	lastPanic string
	NowBase   int64
	inInit    int
	prov      map[*term.T]provRec
	nFresh    int
	symCaps   int
	nRep      int
	// solver-stack reuse across consecutive paths of one worker (DFS alignment)
	prevDecs  []int32
	prevSigs  []uint64
	prevValid bool
	common    int
	live      bool
	sigs      []uint64
	noReuse   bool
	master    *initSnapshot
	snapOff   bool
	snapWhy   string
	model     map[string]uint64
	modelMemo map[*term.T]uint64
	sibModels []map[string]uint64
	sibCVs    [][]uint64
	cvals     []uint64 // values examined by concretize / representative so far (part of the path identity)
	prefixCV  []uint64
	startModel map[string]uint64
}

type mutexState struct {
	w int // writer held
	r int // readers
}

type drawRec struct {
	Name string
	T    *term.T // nil for concrete (choice)
	Val  uint64  // for choices
	W    int
}

type obsRec struct {
	Label string
	T     *term.T
}

type assertRec struct {
	ID      string
	Status  string // "discharged", "violated", "unknown", "trivial"
	Model   map[string]uint64
	KnownID string
	Msg     string
}

func (ex *Exec) fnInfoOf(fn *ssa.Function) *fnInfo {
	if v, ok := ex.sh.fnInfos.Load(fn); ok {
		return v.(*fnInfo)
	}
	fi := &fnInfo{idx: map[ssa.Value]int{}}
	add := func(v ssa.Value) {
		fi.idx[v] = fi.n
		fi.n++
	}
	for _, p := range fn.Params {
		add(p)
	}
	for _, fv := range fn.FreeVars {
		add(fv)
	}
	for _, b := range fn.Blocks {
		for _, in := range b.Instrs {
			if v, ok := in.(ssa.Value); ok {
				add(v)
			}
		}
	}
	ex.sh.fnInfos.Store(fn, fi)
	return fi
}

// ---------- decisions ----------

// addPC asserts c on the current path.
func (ex *Exec) addPC(c *term.T) {
	if c.IsTrue() {
		return
	}
	ex.pc = append(ex.pc, c)
	if ex.live {
		ex.sol.Assert(c)
	}
	ex.tb.Assume(c)
	if ex.model != nil {
		if v, ok := term.Eval(c, ex.model, ex.modelMemo); !ok || v == 0 {
			ex.model = nil
		}
	}
}

// notePC records a condition already asserted in the solver by enterDecision.
func (ex *Exec) notePC(c *term.T) {
	ex.pc = append(ex.pc, c)
	ex.tb.Assume(c)
	if ex.model != nil {
		if v, ok := term.Eval(c, ex.model, ex.modelMemo); !ok || v == 0 {
			ex.model = nil
		}
	}
}

func sigOf(t *term.T) uint64 {
	if t == nil {
		return 1
	}
	return uint64(t.ID)*1000003 ^ uint64(t.Size())<<20 ^ uint64(t.Op)<<56
}

// enterDecision is called at decision index k before any solver operation: it
// opens the solver scope of the decision, or - while the solver still holds the
// scopes of the previous path's identical prefix - verifies alignment.
func (ex *Exec) enterDecision(k int, cond *term.T) {
	// the signature covers the decided condition and the number of terms interned so far:
	// equal signatures at every decision mean the prefix was re-executed identically
	sg := sigOf(cond) ^ uint64(ex.tb.NumTerms())<<32
	ex.sigs = append(ex.sigs, sg)
	if !ex.live {
		if k < ex.common {
			if k < len(ex.prevSigs) && ex.prevSigs[k] != sg {
				panic(pathAbort{"realign", "solver stack no longer matches the replayed prefix"})
			}
			return
		}
		ex.live = true
	}
	ex.sol.Push()
	if cond != nil {
		ex.sol.Assert(cond)
	}
}

func (ex *Exec) site() string {
	if ex.cur != nil && ex.cur.lastInstr != nil {
		return fmt.Sprintf("%s@%d", ex.cur.fn.Name(), ex.cur.lastInstr.Pos())
	}
	return "?"
}

// decide picks one of the mutually exclusive, exhaustive alternatives.
func (ex *Exec) decide(kind string, alts []*term.T) int {
	nonFalse := -1
	cnt := 0
	for i, a := range alts {
		if a.IsTrue() {
			return i
		}
		if !a.IsFalse() {
			cnt++
			nonFalse = i
		}
	}
	if cnt == 0 {
		panic(pathAbort{"assume", "no alternative in " + kind})
	}
	if cnt == 1 {
		return nonFalse
	}
	k := len(ex.decisions)
	if k < len(ex.prefix) {
		ch := int(ex.prefix[k])
		if ch < 0 || ch >= len(alts) {
			panic(pathAbort{"engine", fmt.Sprintf("replay divergence at decision %d (%s)", k, kind)})
		}
		ex.enterDecision(k, alts[ch])
		ex.decisions = append(ex.decisions, int32(ch))
		ex.forced = append(ex.forced, true)
		ex.notePC(alts[ch])
		return ch
	}
	ex.live = ex.live || k >= ex.common
	if ex.startModel != nil && k == len(ex.prefix) {
		// the model found when this prefix was generated satisfies its whole path condition
		ok := true
		memo := map[*term.T]uint64{}
		for _, c := range ex.pc {
			if v, good := term.Eval(c, ex.startModel, memo); !good || v == 0 {
				ok = false
				break
			}
		}
		if ok {
			ex.model, ex.modelMemo = ex.startModel, memo
		}
		ex.startModel = nil
	}
	// explore: find feasible alternatives. The alternative satisfied by the cached
	// model of the path condition is feasible without a query.
	byModel := -1
	if ex.model != nil {
		for i, a := range alts {
			if a.IsFalse() {
				continue
			}
			if v, ok := term.Eval(a, ex.model, ex.modelMemo); ok && v != 0 {
				byModel = i
				break
			}
		}
	}
	var feas []int
	var sibModels []map[string]uint64
	for i, a := range alts {
		if a.IsFalse() {
			continue
		}
		if i == byModel {
			feas = append(feas, i)
			sibModels = append(sibModels, nil)
			continue
		}
		if byModel < 0 && len(feas) == 0 && i == nonFalse {
			// last candidate and none feasible so far: must be feasible (exhaustive)
			feas = append(feas, i)
			sibModels = append(sibModels, nil)
			break
		}
		ex.sol.Push()
		ex.sol.Assert(a)
		r := ex.sol.Check()
		ex.nQueries++
		var m map[string]uint64
		if r == smt.Sat {
			m, _ = ex.modelOfDraws()
		}
		ex.sol.Pop()
		if r != smt.Unsat {
			if r == smt.Unknown {
				ex.unknownFeas++
			}
			feas = append(feas, i)
			sibModels = append(sibModels, m)
		}
	}
	if len(feas) == 0 {
		panic(pathAbort{"assume", "infeasible path at " + kind})
	}
	// follow the model's alternative when there is one (the model stays valid)
	pick := 0
	for j, f := range feas {
		if f == byModel {
			pick = j
		}
	}
	ch := feas[pick]
	for j, o := range feas {
		if j == pick {
			continue
		}
		sib := make([]int32, k+1)
		copy(sib, ex.decisions)
		sib[k] = int32(o)
		ex.siblings = append(ex.siblings, sib)
		ex.sibModels = append(ex.sibModels, sibModels[j])
		ex.sibCVs = append(ex.sibCVs, append([]uint64(nil), ex.cvals...))
	}
	if byModel < 0 {
		ex.setModel(sibModels[pick])
	}
	ex.enterDecision(k, alts[ch])
	ex.decisions = append(ex.decisions, int32(ch))
	ex.forced = append(ex.forced, len(feas) == 1)
	ex.notePC(alts[ch])
	return ch
}

func (ex *Exec) setModel(m map[string]uint64) {
	ex.model = m
	if m != nil {
		ex.modelMemo = map[*term.T]uint64{}
	}
}

// branch decides a boolean condition.
func (ex *Exec) branch(c *term.T) bool {
	if c.IsTrue() {
		return true
	}
	if c.IsFalse() {
		return false
	}
	if v, ok := ex.tb.Decided(c); ok {
		return v
	}
	return ex.decide("branch", []*term.T{c, ex.tb.BNot(c)}) == 0
}

// choice forks unconditionally over n alternatives (harness-level).
func (ex *Exec) choice(n int) int {
	if n <= 1 {
		return 0
	}
	k := len(ex.decisions)
	if k < len(ex.prefix) {
		ch := int(ex.prefix[k])
		ex.enterDecision(k, nil)
		ex.decisions = append(ex.decisions, int32(ch))
		ex.forced = append(ex.forced, true)
		return ch
	}
	ex.enterDecision(k, nil)
	for o := 1; o < n; o++ {
		sib := make([]int32, k+1)
		copy(sib, ex.decisions)
		sib[k] = int32(o)
		ex.siblings = append(ex.siblings, sib)
		ex.sibModels = append(ex.sibModels, ex.model)
		ex.sibCVs = append(ex.sibCVs, append([]uint64(nil), ex.cvals...))
	}
	ex.decisions = append(ex.decisions, 0)
	ex.forced = append(ex.forced, false)
	return 0
}

// concretize forks over the feasible values of t (used for sizes/bounds).
func (ex *Exec) concretize(t *term.T, what string) uint64 {
	if t.Op == term.OConst {
		return t.V
	}
	// enumerate by repeated model queries: alternatives are "t == v" / "t != v" nests,
	// encoded in the decision vector as: 0 = take current model value, 1 = exclude it.
	tb := ex.tb
	for iter := 0; iter < 1<<16; iter++ {
		k := len(ex.decisions)
		var v uint64
		if len(ex.cvals) < len(ex.prefixCV) {
			// replay: the value examined at this point is part of the prefix
			v = ex.prefixCV[len(ex.cvals)]
		} else {
			if !ex.live {
				if k < ex.common {
					panic(pathAbort{"realign", "concretize inside a retained prefix"})
				}
				ex.live = true
			}
			// a candidate value: the solver's model under the path condition
			ex.sol.Push()
			r := ex.sol.Check()
			ex.nQueries++
			if r != smt.Sat {
				ex.sol.Pop()
				if r == smt.Unsat {
					panic(pathAbort{"assume", "infeasible at concretize"})
				}
				panic(pathAbort{"unknown", "solver unknown at concretize " + what + " err=" + ex.sol.LastError + ex.where()})
			}
			vals, err := ex.sol.Values([]*term.T{t})
			ex.sol.Pop()
			if err != nil {
				panic(pathAbort{"unknown", "model error at concretize: " + err.Error()})
			}
			v = vals[0]
		}
		ex.cvals = append(ex.cvals, v)
		eq := tb.Eq(t, tb.Const(int(t.W), v))
		if k < len(ex.prefix) {
			ch := ex.prefix[k]
			c := eq
			if ch != 0 {
				c = tb.BNot(eq)
			}
			ex.enterDecision(k, c)
			ex.decisions = append(ex.decisions, ch)
			ex.forced = append(ex.forced, true)
			ex.notePC(c)
			if ch == 0 {
				return v
			}
			continue
		}
		// is another value possible?
		other := ex.sol.CheckWith(tb.BNot(eq))
		ex.nQueries++
		if other != smt.Unsat {
			sib := make([]int32, k+1)
			copy(sib, ex.decisions)
			sib[k] = 1
			ex.siblings = append(ex.siblings, sib)
			ex.sibModels = append(ex.sibModels, nil)
			ex.sibCVs = append(ex.sibCVs, append([]uint64(nil), ex.cvals...)) // includes v: the sibling excludes it
		}
		ex.enterDecision(k, eq)
		ex.decisions = append(ex.decisions, 0)
		ex.forced = append(ex.forced, other == smt.Unsat)
		ex.notePC(eq)
		return v
	}
	panic(pathAbort{"budget", "concretize: too many values for " + what})
}

// representative fixes t to one feasible value chosen by the solver (an
// under-approximation used only for large allocation lengths; counted in the evidence).
func (ex *Exec) representative(t *term.T, what string) uint64 {
	if t.Op == term.OConst {
		return t.V
	}
	if len(ex.cvals) < len(ex.prefixCV) {
		v := ex.prefixCV[len(ex.cvals)]
		ex.cvals = append(ex.cvals, v)
		ex.addPC(ex.tb.Eq(t, ex.tb.Const(int(t.W), v)))
		ex.nRep++
		return v
	}
	if !ex.live {
		if len(ex.decisions) < ex.common {
			panic(pathAbort{"realign", "representative inside a retained prefix"})
		}
		ex.live = true
	}
	var v uint64
	found := false
	if ex.model != nil {
		if mv, ok := term.Eval(t, ex.model, ex.modelMemo); ok {
			v, found = mv, true
		}
	}
	if !found {
		ex.sol.Push()
		r := ex.sol.Check()
		ex.nQueries++
		if r != smt.Sat {
			ex.sol.Pop()
			panic(pathAbort{"assume", "infeasible at representative"})
		}
		vals, err := ex.sol.Values([]*term.T{t})
		ex.sol.Pop()
		if err != nil {
			panic(pathAbort{"unknown", "model error at representative"})
		}
		v = vals[0]
	}
	ex.cvals = append(ex.cvals, v)
	ex.addPC(ex.tb.Eq(t, ex.tb.Const(int(t.W), v)))
	ex.nRep++
	return v
}

// ---------- constants ----------

func (ex *Exec) constValue(c *ssa.Const) Value {
	if v, ok := ex.constCache[c]; ok {
		return v
	}
	v := ex.constValue0(c)
	ex.constCache[c] = v
	return v
}

func (ex *Exec) constValue0(c *ssa.Const) Value {
	if c.Value == nil {
		return ex.zero(c.Type())
	}
	t := c.Type()
	if tp, ok := t.(*types.TypeParam); ok {
		_ = tp
		panic(ex.unsupported("const of type param"))
	}
	if b, ok := t.Underlying().(*types.Basic); ok {
		if w, signed, ok := intWidth(b); ok {
			if signed {
				i, _ := constant.Int64Val(constant.ToInt(c.Value))
				return ex.tb.Const(w, uint64(i))
			}
			u, _ := constant.Uint64Val(constant.ToInt(c.Value))
			return ex.tb.Const(w, u)
		}
		switch {
		case b.Info()&types.IsBoolean != 0:
			return ex.tb.Bool(constant.BoolVal(c.Value))
		case b.Info()&types.IsString != 0:
			if c.Value.Kind() == constant.String {
				return ex.mkStr(constant.StringVal(c.Value))
			}
			// int constant converted to string
			i, _ := constant.Int64Val(constant.ToInt(c.Value))
			return ex.mkStr(string(rune(i)))
		case b.Info()&types.IsFloat != 0:
			f, _ := constant.Float64Val(c.Value)
			if b.Kind() == types.Float32 {
				f = float64(float32(f))
			}
			return Float{f}
		}
	}
	panic(ex.unsupported("constant of type " + t.String()))
}

// ---------- operand access ----------

func (ex *Exec) get(fr *frame, v ssa.Value) Value {
	switch x := v.(type) {
	case *ssa.Const:
		return ex.constValue(x)
	case *ssa.Global:
		return ex.globalAddr(x)
	case *ssa.Function:
		return x
	case *ssa.Builtin:
		return x
	case nil:
		return nil
	}
	i, ok := fr.info.idx[v]
	if !ok {
		panic(pathAbort{"engine", fmt.Sprintf("no slot for %T %s in %s", v, v.Name(), fr.fn)})
	}
	return fr.env[i]
}

func (ex *Exec) set(fr *frame, v ssa.Value, x Value) {
	fr.env[fr.info.idx[v]] = x
}

func (ex *Exec) globalAddr(g *ssa.Global) *Value {
	if p, ok := ex.globals[g]; ok {
		return p
	}
	if g.Pkg != nil && !ex.inited[g.Pkg] && g.Name() != "init$guard" {
		ex.ensureInit(g.Pkg)
		if p, ok := ex.globals[g]; ok {
			return p
		}
	}
	p := new(Value)
	*p = ex.zero(g.Type().(*types.Pointer).Elem())
	ex.globals[g] = p
	return p
}

// ensureInit runs the package initialiser on first access to one of its
// globals (allow-listed packages only); other packages keep zero globals and
// are reported when a global with an initialiser is read.
func (ex *Exec) ensureInit(pkg *ssa.Package) {
	if ex.inited[pkg] {
		return
	}
	ex.inited[pkg] = true
	path := pkg.Pkg.Path()
	if !ex.initAllowed(path) {
		ex.uninit[path] = true
		return
	}
	if f := pkg.Func("init"); f != nil {
		saved := ex.cur
		ex.cur = nil
		ex.inInit++
		before := ex.steps
		ex.callFn(nil, f, nil)
		ex.inInit--
		if os.Getenv("GOSYM_INITTRACE") != "" {
			fmt.Fprintf(os.Stderr, "init %s steps=%d\n", path, ex.steps-before)
		}
		ex.cur = saved
	}
}

func (ex *Exec) initAllowed(path string) bool {
	if v, ok := ex.sh.InitAllow[path]; ok {
		return v
	}
	return strings.HasPrefix(path, "github.com/emitter-io/emitter/")
}

// ---------- loads and stores ----------

func (ex *Exec) load(p Value, t types.Type) Value {
	switch a := p.(type) {
	case *Value:
		if a == nil {
			panic(ex.goPanicStr("invalid memory address or nil pointer dereference"))
		}
		if ex.sched != nil && ex.noTouch == 0 {
			ex.touch(a, false)
		}
		v := *a
		if t != nil {
			v = ex.reinterpret(v, t)
		}
		return copyVal(v)
	case SymPtr:
		if ex.sched != nil && ex.noTouch == 0 {
			ex.touchSlice(a.Base, false)
		}
		return ex.symLoad(a.Base, a.Idx)
	}
	panic(ex.unsupported(fmt.Sprintf("load through %T", p)))
}

// reinterpret handles the unsafe string<->[]byte header casts.
func (ex *Exec) reinterpret(v Value, t types.Type) Value {
	switch x := v.(type) {
	case Slice:
		if isString(t) {
			return Str{B: x.V[:len(x.V):len(x.V)]}
		}
	case Str:
		if _, ok := t.Underlying().(*types.Slice); ok {
			return Slice{V: x.B}
		}
	}
	return v
}

func (ex *Exec) store(p Value, v Value) {
	switch a := p.(type) {
	case *Value:
		if a == nil {
			panic(ex.goPanicStr("invalid memory address or nil pointer dereference"))
		}
		if ex.sched != nil && ex.noTouch == 0 {
			ex.touch(a, true)
		}
		storeInPlace(a, v)
		if ex.sched != nil && ex.noTouch == 0 {
			ex.touch(a, true)
		}
		return
	case SymPtr:
		if ex.sched != nil && ex.noTouch == 0 {
			ex.touchSlice(a.Base, true)
		}
		tb := ex.tb
		nv := v.(*term.T)
		for i := range a.Base {
			old := a.Base[i].(*term.T)
			a.Base[i] = tb.Ite(tb.Eq(a.Idx, tb.Const(64, uint64(i))), nv, old)
		}
		return
	}
	panic(ex.unsupported(fmt.Sprintf("store through %T", p)))
}

type provRec struct {
	idx   *term.T
	table []Value
}

func (ex *Exec) symLoad(base []Value, idx *term.T) Value {
	if len(base) == 0 {
		panic(pathAbort{"engine", "symLoad on empty base"})
	}
	if _, ok := base[0].(*term.T); !ok {
		// aggregate or non-scalar elements: fork on the index
		i := ex.concretize(idx, "index of non-scalar element")
		return copyVal(base[i])
	}
	// table composition: the index is itself the result of a constant-table lookup
	key := idx
	if key.Op == term.OZExt {
		key = key.A
	}
	if p, ok := ex.prov[key]; ok {
		comp := make([]Value, len(p.table))
		good := true
		for i, e := range p.table {
			c := e.(*term.T)
			if c.Op != term.OConst || c.V >= uint64(len(base)) {
				good = false
				break
			}
			comp[i] = base[c.V]
		}
		if good {
			return ex.tableLookup(comp, p.idx)
		}
	}
	if idx.Op == term.OIte {
		// index is a case tree over constants: push the load through the leaves
		if r, ok := ex.loadThroughLeaves(base, idx, 0); ok {
			if id, ok := ex.tb.BitTreeIdentity(r); ok {
				return id
			}
			return r
		}
	}
	return ex.tableLookup(base, idx)
}

// tableLookup selects base[idx] (idx known in range) and records provenance
// for constant tables so that chained lookups compose.
func (ex *Exec) tableLookup(base []Value, idx *term.T) *term.T {
	allConst := true
	identity := true
	for i, e := range base {
		c := e.(*term.T)
		if c.Op != term.OConst {
			allConst = false
			identity = false
			break
		}
		if c.V != uint64(i) {
			identity = false
		}
	}
	w := int(base[0].(*term.T).W)
	if identity && len(base) <= 1<<uint(w) {
		// base[i] == i for every in-range index: the result is the index itself
		if int(idx.W) >= w {
			return ex.tb.Extract(idx, w-1, 0)
		}
		return ex.tb.ZExt(idx, w)
	}
	r := ex.tableTree(base, idx, 0, len(base), 63)
	if allConst && r.Op == term.OIte {
		ex.prov[r] = provRec{idx: idx, table: base}
	}
	return r
}

// tableTree builds a balanced decision tree over the index bits selecting
// base[lo..hi); identical subtrees are shared by hash-consing. The index is
// known to be in range.
func (ex *Exec) tableTree(base []Value, idx *term.T, lo, hi int, bit int) *term.T {
	if hi-lo == 1 {
		return base[lo].(*term.T)
	}
	// find the highest bit that distinguishes lo..hi-1
	for bit >= 0 && (uint64(lo)>>uint(bit)) == (uint64(hi-1)>>uint(bit)) {
		bit--
	}
	mid := int((uint64(hi-1) >> uint(bit)) << uint(bit))
	tb := ex.tb
	c := tb.Eq(tb.Extract(idx, bit, bit), tb.Const(1, 1))
	return tb.Ite(c, ex.tableTree(base, idx, mid, hi, bit-1), ex.tableTree(base, idx, lo, mid, bit-1))
}

// indexCheck decides 0 <= idx < n and panics (interpreted) otherwise.
// idx is 64-bit (already extended according to its signedness).
func (ex *Exec) indexCheck(idx *term.T, n int) {
	ok := ex.tb.Cmp(term.OUlt, idx, ex.tb.Const(64, uint64(n)))
	if !ex.branch(ok) {
		panic(ex.goPanicStr(fmt.Sprintf("index out of range [%s] with length %d", idxStr(idx), n)))
	}
}

func idxStr(t *term.T) string {
	if t.Op == term.OConst {
		return fmt.Sprint(t.SignedVal())
	}
	return "sym"
}

// to64 extends an integer operand to 64 bits according to its static type.
func (ex *Exec) to64(v Value, t types.Type) *term.T {
	x := v.(*term.T)
	if x.W == 64 {
		return x
	}
	_, signed, _ := typeIntWidth(t)
	if signed {
		return ex.tb.SExt(x, 64)
	}
	return ex.tb.ZExt(x, 64)
}

// elemAddr returns the address of base[idx].
func (ex *Exec) elemAddr(base []Value, idx *term.T) Value {
	ex.indexCheck(idx, len(base))
	if idx.Op == term.OConst {
		return &base[idx.V]
	}
	if len(base) == 1 {
		return &base[0]
	}
	if _, scalar := base[0].(*term.T); scalar && len(base) <= 4096 {
		return SymPtr{Base: base, Idx: idx}
	}
	i := ex.concretize(idx, "index")
	return &base[i]
}

// ---------- calls ----------

func (ex *Exec) callValue(caller *frame, fv Value, args []Value, site ssa.Instruction) Value {
	switch f := fv.(type) {
	case *ssa.Function:
		return ex.callFn(caller, f, args)
	case *Closure:
		return ex.callClosure(caller, f, args)
	case *ssa.Builtin:
		return ex.callBuiltin(caller, f, args, site)
	case nil:
		panic(ex.goPanicStr("invalid memory address or nil pointer dereference (nil func)"))
	}
	panic(ex.unsupported(fmt.Sprintf("call of %T", fv)))
}

func (ex *Exec) callClosure(caller *frame, c *Closure, args []Value) Value {
	return ex.callSSA(caller, c.Fn, args, c.Env)
}

func (ex *Exec) callFn(caller *frame, fn *ssa.Function, args []Value) Value {
	name := fn.String()
	if in, ok := intrinsics[name]; ok {
		return in(ex, caller, fn, args)
	}
	if ex.sh.Noop[name] {
		return ex.zeroResults(fn.Signature)
	}
	if ex.sched != nil && ex.sh.AtomicFns[name] {
		ex.noSched++
		ex.noTouch++
		defer func() { ex.noSched--; ex.noTouch-- }()
	}
	if r, ok := ex.sh.Subst[name]; ok && r != fn {
		return ex.callSSA(caller, r, args, nil)
	}
	if fn.Name() == "init" && fn.Pkg != nil && fn.Signature.Recv() == nil && fn.Parent() == nil && fn == fn.Pkg.Func("init") {
		// package initialiser: allow-list
		if ex.inited[fn.Pkg] && caller != nil {
			// may be a nested call from another init; guard var handles re-entry
		}
		ex.inited[fn.Pkg] = true
		if !ex.initAllowed(fn.Pkg.Pkg.Path()) {
			ex.uninit[fn.Pkg.Pkg.Path()] = true
			return nil
		}
	}
	if fn.Blocks == nil {
		if in, ok := intrinsicsByShort(fn); ok {
			return in(ex, caller, fn, args)
		}
		panic(ex.unsupported("external function " + name))
	}
	return ex.callSSA(caller, fn, args, nil)
}

func (ex *Exec) zeroResults(sig *types.Signature) Value {
	res := sig.Results()
	switch res.Len() {
	case 0:
		return nil
	case 1:
		return ex.zero(res.At(0).Type())
	}
	return ex.zero(res)
}

func (ex *Exec) callSSA(caller *frame, fn *ssa.Function, args []Value, env []Value) Value {
	if ex.depth > 400 {
		panic(pathAbort{"budget", "call depth exceeded" + ex.where()})
	}
	ex.funcsSeen[fn] = true
	fi := ex.fnInfoOf(fn)
	fr := &frame{fn: fn, info: fi, env: make([]Value, fi.n), caller: caller}
	if len(args) != len(fn.Params) {
		panic(pathAbort{"engine", fmt.Sprintf("arity mismatch calling %s: %d vs %d", fn, len(args), len(fn.Params))})
	}
	for i := range fn.Params {
		fr.env[i] = args[i]
	}
	for i := range fn.FreeVars {
		fr.env[len(fn.Params)+i] = env[i]
	}
	if len(fn.Blocks) == 0 {
		panic(ex.unsupported("no body: " + fn.String()))
	}
	fr.block = fn.Blocks[0]
	saved := ex.cur
	ex.cur = fr
	ex.depth++
	for fr.block != nil {
		ex.runFrame(fr)
	}
	ex.depth--
	ex.cur = saved
	return fr.result
}

func (ex *Exec) runFrame(fr *frame) {
	defer func() {
		if fr.block == nil {
			return // normal return
		}
		r := recover()
		gp, ok := r.(*goPanic)
		if !ok {
			panic(r) // engine-level abort: propagate
		}
		ex.cur = fr
		fr.panicking = true
		fr.panicVal = gp
		ex.runDefers(fr)
		// recovered: continue at the Recover block (or return zero results)
		fr.block = fr.fn.Recover
		if fr.block == nil {
			fr.result = ex.zeroResults(fr.fn.Signature)
		}
	}()
	for {
		b := fr.block
		if ex.sh.LoopBound > 0 && len(b.Preds) > 1 && ex.inInit == 0 {
			if fr.visits == nil {
				fr.visits = map[*ssa.BasicBlock]int{}
			}
			fr.visits[b]++
			if fr.visits[b] > ex.sh.LoopBound {
				if ex.termID != "" && len(ex.decisions) >= len(ex.prefix) {
					ex.assertMsg(nil, ex.termID, fmt.Sprintf("does not terminate: more than %d rounds of a loop in %s", ex.sh.LoopBound, fr.fn)+ex.where())
					panic(pathAbort{"stop", "non-termination reported"})
				}
				panic(pathAbort{"unwind", fmt.Sprintf("loop bound %d exceeded in %s", ex.sh.LoopBound, fr.fn) + ex.where()})
			}
		}
		// phis first (parallel assignment)
		nphi := 0
		if fr.prev != nil {
			var pi int
			for i, p := range b.Preds {
				if p == fr.prev {
					pi = i
					break
				}
			}
			var tmp [8]Value
			vals := tmp[:0]
			for _, in := range b.Instrs {
				phi, ok := in.(*ssa.Phi)
				if !ok {
					break
				}
				vals = append(vals, ex.get(fr, phi.Edges[pi]))
				nphi++
			}
			for i := 0; i < nphi; i++ {
				ex.set(fr, b.Instrs[i].(*ssa.Phi), vals[i])
			}
		}
		jumped := false
		for _, in := range b.Instrs[nphi:] {
			ex.steps++
			if ex.steps&0xffff == 0 && !ex.sh.Deadline.IsZero() && time.Now().After(ex.sh.Deadline) {
				panic(pathAbort{"budget", "run deadline exceeded inside a path" + ex.where()})
			}
			if ex.steps > ex.sh.InstrBudget {
				panic(pathAbort{"budget", "instruction budget exceeded" + ex.where()})
			}
			fr.lastInstr = in
			if traceFn != "" && strings.Contains(fr.fn.String(), traceFn) {
				fmt.Fprintf(os.Stderr, "TRACE %s: %s\n", fr.fn.Name(), in.String())
				r := ex.visit(fr, in)
				if v, ok := in.(ssa.Value); ok {
					fmt.Fprintf(os.Stderr, "   %s = %s\n", v.Name(), dbgVal(ex.get(fr, v)))
				}
				switch r {
				case kReturn:
					fr.block = nil
					return
				case kJump:
					jumped = true
				}
				if jumped {
					break
				}
				continue
			}
			switch ex.visit(fr, in) {
			case kReturn:
				fr.block = nil
				return
			case kJump:
				jumped = true
			}
			if jumped {
				break
			}
		}
		if !jumped {
			panic(pathAbort{"engine", "block fell through: " + fr.fn.String()})
		}
	}
}

func (ex *Exec) runDefers(fr *frame) {
	for len(fr.defers) > 0 {
		d := fr.defers[len(fr.defers)-1]
		fr.defers = fr.defers[:len(fr.defers)-1]
		func() {
			defer func() {
				if r := recover(); r != nil {
					gp, ok := r.(*goPanic)
					if !ok {
						panic(r)
					}
					// a deferred call panicked: it replaces the current panic
					ex.cur = fr
					fr.panicking = true
					fr.panicVal = gp
				}
			}()
			ex.callValue(fr, d.fn, d.args, d.instr)
		}()
	}
	if fr.panicking {
		gp := fr.panicVal
		panic(gp)
	}
}

const (
	kNext = iota
	kReturn
	kJump
)

func (ex *Exec) callArgs(fr *frame, c *ssa.CallCommon) (Value, []Value) {
	if c.IsInvoke() {
		recv := ex.get(fr, c.Value).(Iface)
		if recv.T == nil {
			panic(ex.goPanicStr("invalid memory address or nil pointer dereference (method call on nil interface)"))
		}
		fn := ex.prog.LookupMethod(recv.T, c.Method.Pkg(), c.Method.Name())
		if fn == nil {
			panic(ex.unsupported(fmt.Sprintf("method %s not found on %s", c.Method.Name(), recv.T)))
		}
		args := make([]Value, 0, len(c.Args)+1)
		args = append(args, recv.V)
		for _, a := range c.Args {
			args = append(args, ex.get(fr, a))
		}
		return fn, args
	}
	fv := ex.get(fr, c.Value)
	args := make([]Value, len(c.Args))
	for i, a := range c.Args {
		args[i] = ex.get(fr, a)
	}
	return fv, args
}

func (ex *Exec) visit(fr *frame, instr ssa.Instruction) int {
	tb := ex.tb
	switch in := instr.(type) {
	case *ssa.DebugRef:
	case *ssa.UnOp:
		ex.set(fr, in, ex.unop(fr, in))
	case *ssa.BinOp:
		ex.set(fr, in, ex.binop(in.Op, in.X.Type(), in.Y.Type(), ex.get(fr, in.X), ex.get(fr, in.Y)))
	case *ssa.Call:
		fv, args := ex.callArgs(fr, &in.Call)
		r := ex.callValue(fr, fv, args, in)
		ex.cur = fr
		ex.set(fr, in, r)
	case *ssa.ChangeInterface:
		ex.set(fr, in, ex.get(fr, in.X))
	case *ssa.ChangeType:
		ex.set(fr, in, ex.get(fr, in.X))
	case *ssa.Convert:
		ex.set(fr, in, ex.convert(in.X.Type(), in.Type(), ex.get(fr, in.X)))
	case *ssa.MultiConvert:
		ex.set(fr, in, ex.convert(in.X.Type(), in.Type(), ex.get(fr, in.X)))
	case *ssa.SliceToArrayPointer:
		s := ex.get(fr, in.X).(Slice)
		n := int(in.Type().(*types.Pointer).Elem().Underlying().(*types.Array).Len())
		if len(s.V) < n {
			panic(ex.goPanicStr("cannot convert slice to array pointer: length too short"))
		}
		if s.V == nil {
			ex.set(fr, in, (*Value)(nil))
		} else {
			p := new(Value)
			*p = Array(s.V[:n:n])
			ex.set(fr, in, p)
		}
	case *ssa.MakeInterface:
		ex.set(fr, in, Iface{T: in.X.Type(), V: copyVal(ex.get(fr, in.X))})
	case *ssa.Extract:
		ex.set(fr, in, ex.get(fr, in.Tuple).(Tuple)[in.Index])
	case *ssa.Slice:
		ex.set(fr, in, ex.sliceOp(fr, in))
	case *ssa.Return:
		switch len(in.Results) {
		case 0:
		case 1:
			fr.result = ex.get(fr, in.Results[0])
		default:
			res := make(Tuple, len(in.Results))
			for i, r := range in.Results {
				res[i] = ex.get(fr, r)
			}
			fr.result = res
		}
		return kReturn
	case *ssa.RunDefers:
		ex.runDefers(fr)
	case *ssa.Panic:
		v := ex.get(fr, in.X)
		if os.Getenv("GOSYM_PANICTRACE") != "" {
			fmt.Fprintf(os.Stderr, "PANIC %s%s\n", ex.panicMsg(v), ex.where())
		}
		panic(&goPanic{val: v, msg: ex.panicMsg(v) + ex.where()})
	case *ssa.Send:
		ch := ex.get(fr, in.Chan).(*Chan)
		ex.chanSend(ch, ex.get(fr, in.X))
	case *ssa.Store:
		ex.store(ex.get(fr, in.Addr), ex.get(fr, in.Val))
	case *ssa.If:
		c := ex.get(fr, in.Cond).(*term.T)
		fr.prev = fr.block
		if ex.branch(c) {
			fr.block = fr.block.Succs[0]
		} else {
			fr.block = fr.block.Succs[1]
		}
		return kJump
	case *ssa.Jump:
		fr.prev = fr.block
		fr.block = fr.block.Succs[0]
		return kJump
	case *ssa.Defer:
		fv, args := ex.callArgs(fr, &in.Call)
		fr.defers = append(fr.defers, deferred{fn: fv, args: args, instr: in})
	case *ssa.Go:
		fv, args := ex.callArgs(fr, &in.Call)
		ex.spawn(fv, args, in)
	case *ssa.MakeChan:
		n := ex.concretize(ex.to64(ex.get(fr, in.Size), in.Size.Type()), "chan size")
		ex.set(fr, in, &Chan{cap: int(n)})
	case *ssa.Alloc:
		p := new(Value)
		*p = ex.zero(in.Type().(*types.Pointer).Elem())
		ex.set(fr, in, p)
	case *ssa.MakeSlice:
		ex.set(fr, in, ex.makeSlice(fr, in))
	case *ssa.MakeMap:
		ex.set(fr, in, newMap(in.Type().Underlying().(*types.Map).Key()))
	case *ssa.Range:
		x := ex.get(fr, in.X)
		switch c := x.(type) {
		case *Map:
			ex.touchObj(c, false)
			ex.set(fr, in, &Iter{m: c})
		case Str:
			ex.set(fr, in, &Iter{s: c, isStr: true})
		default:
			panic(ex.unsupported(fmt.Sprintf("range over %T", x)))
		}
	case *ssa.Next:
		ex.set(fr, in, ex.next(ex.get(fr, in.Iter).(*Iter), in))
	case *ssa.FieldAddr:
		p := ex.get(fr, in.X)
		pp, ok := p.(*Value)
		if !ok {
			panic(ex.unsupported(fmt.Sprintf("FieldAddr on %T", p)))
		}
		if pp == nil {
			panic(ex.goPanicStr("invalid memory address or nil pointer dereference"))
		}
		s, ok := (*pp).(Struct)
		if !ok {
			panic(ex.unsupported(fmt.Sprintf("FieldAddr: cell holds %T, want struct %s", *pp, in.X.Type())))
		}
		ex.set(fr, in, &s[in.Field])
	case *ssa.Field:
		ex.set(fr, in, copyVal(ex.get(fr, in.X).(Struct)[in.Field]))
	case *ssa.IndexAddr:
		x := ex.get(fr, in.X)
		idx := ex.to64(ex.get(fr, in.Index), in.Index.Type())
		switch c := x.(type) {
		case Slice:
			ex.set(fr, in, ex.elemAddr(c.V, idx))
		case *Value:
			if c == nil {
				panic(ex.goPanicStr("invalid memory address or nil pointer dereference"))
			}
			ex.set(fr, in, ex.elemAddr([]Value((*c).(Array)), idx))
		default:
			panic(ex.unsupported(fmt.Sprintf("IndexAddr on %T", x)))
		}
	case *ssa.Index:
		x := ex.get(fr, in.X)
		idx := ex.to64(ex.get(fr, in.Index), in.Index.Type())
		switch c := x.(type) {
		case Array:
			ex.indexCheck(idx, len(c))
			if idx.Op == term.OConst {
				ex.set(fr, in, copyVal(c[idx.V]))
			} else {
				ex.set(fr, in, ex.symLoad(c, idx))
			}
		case Str:
			ex.indexCheck(idx, len(c.B))
			if idx.Op == term.OConst {
				ex.set(fr, in, c.B[idx.V])
			} else {
				ex.set(fr, in, ex.symLoad(c.B, idx))
			}
		default:
			panic(ex.unsupported(fmt.Sprintf("Index on %T", x)))
		}
	case *ssa.Lookup:
		x := ex.get(fr, in.X)
		switch c := x.(type) {
		case Str:
			idx := ex.to64(ex.get(fr, in.Index), in.Index.Type())
			ex.indexCheck(idx, len(c.B))
			if idx.Op == term.OConst {
				ex.set(fr, in, c.B[idx.V])
			} else {
				ex.set(fr, in, ex.symLoad(c.B, idx))
			}
		case *Map:
			ex.touchObj(c, false)
			v, ok := ex.mapGet(c, ex.get(fr, in.Index))
			if !ok {
				v = ex.zero(in.X.Type().Underlying().(*types.Map).Elem())
			} else {
				v = copyVal(v)
			}
			if in.CommaOk {
				ex.set(fr, in, Tuple{v, tb.Bool(ok)})
			} else {
				ex.set(fr, in, v)
			}
		default:
			panic(ex.unsupported(fmt.Sprintf("Lookup on %T", x)))
		}
	case *ssa.MapUpdate:
		m := ex.get(fr, in.Map).(*Map)
		ex.touchObj(m, true)
		ex.mapSet(m, copyVal(ex.get(fr, in.Key)), copyVal(ex.get(fr, in.Value)))
	case *ssa.TypeAssert:
		ex.set(fr, in, ex.typeAssert(fr, in))
	case *ssa.MakeClosure:
		env := make([]Value, len(in.Bindings))
		for i, b := range in.Bindings {
			env[i] = ex.get(fr, b)
		}
		ex.set(fr, in, &Closure{Fn: in.Fn.(*ssa.Function), Env: env})
	case *ssa.Phi:
		// phi at entry block without prev cannot happen
		panic(pathAbort{"engine", "stray phi"})
	case *ssa.Select:
		ex.set(fr, in, ex.selectOp(fr, in))
	default:
		panic(ex.unsupported(fmt.Sprintf("instruction %T", instr)))
	}
	return kNext
}

func (ex *Exec) panicMsg(v Value) string {
	if i, ok := v.(Iface); ok {
		if s, ok := i.V.(Str); ok {
			if cs, ok := concStr(s); ok {
				return "panic: " + cs
			}
		}
		if i.T != nil {
			return "panic: value of type " + i.T.String()
		}
	}
	return "panic"
}

func (ex *Exec) next(it *Iter, in *ssa.Next) Value {
	tb := ex.tb
	if it.isStr {
		s := it.s
		if it.pos >= len(s.B) {
			return Tuple{tb.False, tb.Const(64, 0), tb.Const(32, 0)}
		}
		// decode one rune (concrete bytes only; symbolic: treat bytes < 0x80 by decision)
		b0 := s.B[it.pos].(*term.T)
		if b0.Op != term.OConst {
			// fork: ASCII or not
			if ex.branch(tb.Cmp(term.OUlt, b0, tb.Const(8, 0x80))) {
				r := Tuple{tb.True, tb.Const(64, uint64(it.pos)), tb.ZExt(b0, 32)}
				it.pos++
				return r
			}
			panic(ex.unsupported("range over string with symbolic non-ASCII byte"))
		}
		cs := make([]byte, 0, 4)
		for j := it.pos; j < len(s.B) && j < it.pos+4; j++ {
			t := s.B[j].(*term.T)
			if t.Op != term.OConst {
				break
			}
			cs = append(cs, byte(t.V))
		}
		r, size := decodeRune(cs)
		res := Tuple{tb.True, tb.Const(64, uint64(it.pos)), tb.Const(32, uint64(r))}
		it.pos += size
		return res
	}
	m := it.m
	if m != nil {
		for it.pos < len(m.entries) {
			e := m.entries[it.pos]
			it.pos++
			if !e.deleted {
				return Tuple{tb.True, e.k, copyVal(e.v)}
			}
		}
	}
	mt := in.Iter.(*ssa.Range).X.Type().Underlying().(*types.Map)
	return Tuple{tb.False, ex.zero(mt.Key()), ex.zero(mt.Elem())}
}

func decodeRune(b []byte) (rune, int) {
	for i, r := range string(b) {
		_ = i
		n := len(string(r))
		if r == 0xFFFD {
			// invalid encoding consumes one byte (unless it is a real U+FFFD)
			if len(b) >= 3 && b[0] == 0xEF && b[1] == 0xBF && b[2] == 0xBD {
				return r, 3
			}
			return r, 1
		}
		return r, n
	}
	return 0xFFFD, 1
}

func (ex *Exec) typeAssert(fr *frame, in *ssa.TypeAssert) Value {
	x := ex.get(fr, in.X).(Iface)
	ok := false
	if x.T != nil {
		if it, isIface := in.AssertedType.Underlying().(*types.Interface); isIface {
			ok = ex.implements(x.T, it)
		} else {
			ok = types.Identical(x.T, in.AssertedType)
		}
	}
	var v Value
	if ok {
		if _, isIface := in.AssertedType.Underlying().(*types.Interface); isIface {
			v = x
		} else {
			v = copyVal(x.V)
		}
	} else {
		if !in.CommaOk {
			tn := "nil"
			if x.T != nil {
				tn = x.T.String()
			}
			panic(ex.goPanicStr(fmt.Sprintf("interface conversion: interface is %s, not %s", tn, in.AssertedType)))
		}
		v = ex.zero(in.AssertedType)
	}
	if in.CommaOk {
		return Tuple{v, ex.tb.Bool(ok)}
	}
	return v
}

func (ex *Exec) implements(t types.Type, it *types.Interface) bool {
	ms := ex.prog.MethodSets.MethodSet(t)
	for i := 0; i < it.NumMethods(); i++ {
		m := it.Method(i)
		if ms.Lookup(m.Pkg(), m.Name()) == nil {
			return false
		}
	}
	return true
}

func (ex *Exec) makeSlice(fr *frame, in *ssa.MakeSlice) Value {
	ln := ex.to64(ex.get(fr, in.Len), in.Len.Type())
	cp := ex.to64(ex.get(fr, in.Cap), in.Cap.Type())
	if ln.Op != term.OConst || cp.Op != term.OConst {
		if h := ex.hooks; h != nil && h.MakeSize != nil {
			h.MakeSize(ex, ln, cp, in)
		}
	}
	if ln.Op != term.OConst && ex.sh.AllocBound > 0 {
		// allocation obligation: a size computed from input stays within the stated bound
		tb := ex.tb
		// a counterexample is preferably one whose size is well above the bound but harmless
		// to allocate natively (the replay measures the bytes the real code allocates)
		b := uint64(ex.sh.AllocBound)
		ex.steer = tb.BAnd(tb.Cmp(term.OSle, tb.Const(64, 16*b), ln), tb.Cmp(term.OSle, ln, tb.Const(64, 64*b)))
		ex.steerVal = ln
		ex.steerNote = fmt.Sprintf("elem-bytes=%d", (&types.StdSizes{WordSize: 8, MaxAlign: 8}).Sizeof(in.Type().Underlying().(*types.Slice).Elem()))
		ex.assert(tb.BAnd(tb.Cmp(term.OSle, tb.Const(64, 0), ln), tb.Cmp(term.OSle, ln, tb.Const(64, b))), ex.sh.Property+".alloc-bounded")
		ex.steer, ex.steerVal, ex.steerNote = nil, nil, ""
	}
	var l int64
	if ln.Op != term.OConst && !ex.branch(ex.tb.Cmp(term.OUle, ln, ex.tb.Const(64, 64))) {
		// large symbolic length: one solver-chosen representative (stated under-approximation;
		// the bound obligation above was decided for every value)
		if !ex.branch(ex.tb.Cmp(term.OSle, ex.tb.Const(64, 0), ln)) {
			panic(ex.goPanicStr("makeslice: len out of range"))
		}
		l = int64(ex.representative(ln, "make len"))
	} else {
		l = int64(ex.concretize(ln, "make len"))
	}
	var c int64
	if cp.Op != term.OConst {
		// symbolic capacity hint: the run-time check (len <= cap <= max) is decided, then the
		// slice is allocated with cap == len (capacity is only observable through cap() and
		// append aliasing; stated approximation)
		tb := ex.tb
		if ex.sh.AllocBound > 0 {
			b := uint64(ex.sh.AllocBound)
			ex.steer = tb.BAnd(tb.Cmp(term.OSle, tb.Const(64, 16*b), cp), tb.Cmp(term.OSle, cp, tb.Const(64, 64*b)))
			ex.steerVal = cp
			ex.steerNote = fmt.Sprintf("elem-bytes=%d", (&types.StdSizes{WordSize: 8, MaxAlign: 8}).Sizeof(in.Type().Underlying().(*types.Slice).Elem()))
			ex.assert(tb.BAnd(tb.Cmp(term.OSle, tb.Const(64, 0), cp), tb.Cmp(term.OSle, cp, tb.Const(64, b))), ex.sh.Property+".alloc-bounded")
			ex.steer, ex.steerVal, ex.steerNote = nil, nil, ""
		}
		okc := tb.BAnd(tb.Cmp(term.OSle, tb.Const(64, uint64(l)), cp), tb.Cmp(term.OSle, cp, tb.Const(64, 1<<40)))
		if !ex.branch(okc) {
			panic(ex.goPanicStr("makeslice: cap out of range"))
		}
		ex.symCaps++
		c = l
	} else {
		c = int64(cp.V)
	}
	if l < 0 || l > c || c > 1<<28 {
		if l < 0 || c < 0 || l > c {
			panic(ex.goPanicStr("makeslice: len out of range"))
		}
		panic(pathAbort{"budget", fmt.Sprintf("makeslice of %d elements", c) + ex.where()})
	}
	elem := in.Type().Underlying().(*types.Slice).Elem()
	ex.allocElems += c
	v := make([]Value, c)
	z := ex.zero(elem)
	switch z.(type) {
	case Struct, Array:
		for i := range v {
			v[i] = ex.zero(elem)
		}
	default:
		for i := range v {
			v[i] = z
		}
	}
	return Slice{V: v[:l]}
}

func (ex *Exec) sliceOp(fr *frame, in *ssa.Slice) Value {
	x := ex.get(fr, in.X)
	tb := ex.tb
	// bounds as 64-bit terms (nil = default)
	term64 := func(v ssa.Value) *term.T {
		if v == nil {
			return nil
		}
		return ex.to64(ex.get(fr, v), v.Type())
	}
	lo, hi, mx := term64(in.Low), term64(in.High), term64(in.Max)
	// resolve checks the run-time bounds condition symbolically (one decision), then
	// enumerates the in-range values of any symbolic bound (at most capacity+1 each)
	resolve := func(length, capacity int, what string) (int, int, int) {
		l, h, m := lo, hi, mx
		if l == nil {
			l = tb.Const(64, 0)
		}
		if h == nil {
			h = tb.Const(64, uint64(length))
		}
		if m == nil {
			m = tb.Const(64, uint64(capacity))
		}
		ok := tb.BAnd(tb.Cmp(term.OSle, tb.Const(64, 0), l), tb.BAnd(tb.Cmp(term.OSle, l, h), tb.BAnd(tb.Cmp(term.OSle, h, m), tb.Cmp(term.OSle, m, tb.Const(64, uint64(capacity))))))
		if !ex.branch(ok) {
			panic(ex.goPanicStr(fmt.Sprintf("slice bounds out of range [%s:%s:%s] with capacity %d (%s)", idxStr(l), idxStr(h), idxStr(m), capacity, what)))
		}
		return int(ex.concretize(l, "slice low")), int(ex.concretize(h, "slice high")), int(ex.concretize(m, "slice max"))
	}
	switch c := x.(type) {
	case Str:
		l, h, _ := resolve(len(c.B), len(c.B), "string")
		return Str{B: c.B[l:h:h]}
	case Slice:
		l, h, m := resolve(len(c.V), cap(c.V), "slice")
		if c.V == nil {
			return Slice{}
		}
		return Slice{V: c.V[l:h:m]}
	case *Value:
		if c == nil {
			panic(ex.goPanicStr("invalid memory address or nil pointer dereference"))
		}
		a := []Value((*c).(Array))
		l, h, m := resolve(len(a), len(a), "array")
		return Slice{V: a[l:h:m]}
	}
	panic(ex.unsupported(fmt.Sprintf("slice of %T", x)))
}

// ---------- unary / binary / conversions ----------

func (ex *Exec) unop(fr *frame, in *ssa.UnOp) Value {
	x := ex.get(fr, in.X)
	tb := ex.tb
	switch in.Op {
	case token.MUL:
		return ex.load(x, in.Type())
	case token.NOT:
		return tb.BNot(x.(*term.T))
	case token.SUB:
		switch v := x.(type) {
		case *term.T:
			return tb.Neg(v)
		case Float:
			return Float{-v.V}
		}
	case token.XOR:
		return tb.Not(x.(*term.T))
	case token.ARROW:
		ch := x.(*Chan)
		v, ok := ex.chanRecv(ch, in.Type(), in.CommaOk)
		if in.CommaOk {
			return Tuple{v, tb.Bool(ok)}
		}
		return v
	}
	panic(ex.unsupported("unop " + in.Op.String()))
}

func (ex *Exec) binop(op token.Token, xt, yt types.Type, xv, yv Value) Value {
	tb := ex.tb
	switch x := xv.(type) {
	case *term.T:
		y, ok := yv.(*term.T)
		if !ok {
			panic(ex.unsupported(fmt.Sprintf("binop %s on term and %T", op, yv)))
		}
		if x.W == 0 { // bool
			switch op {
			case token.EQL:
				return tb.BEq(x, y)
			case token.NEQ:
				return tb.BNot(tb.BEq(x, y))
			case token.AND, token.LAND:
				return tb.BAnd(x, y)
			case token.OR, token.LOR:
				return tb.BOr(x, y)
			}
			panic(ex.unsupported("bool binop " + op.String()))
		}
		_, signed, _ := typeIntWidth(xt)
		switch op {
		case token.ADD:
			return tb.Bin(term.OAdd, x, y)
		case token.SUB:
			return tb.Bin(term.OSub, x, y)
		case token.MUL:
			return tb.Bin(term.OMul, x, y)
		case token.QUO, token.REM:
			if !ex.branch(tb.BNot(tb.Eq(y, tb.Const(int(y.W), 0)))) {
				panic(ex.goPanicStr("integer divide by zero"))
			}
			var o term.Op
			switch {
			case op == token.QUO && signed:
				o = term.OSDiv
			case op == token.QUO:
				o = term.OUDiv
			case signed:
				o = term.OSRem
			default:
				o = term.OURem
			}
			return tb.Bin(o, x, y)
		case token.AND:
			return tb.Bin(term.OAnd, x, y)
		case token.OR:
			return tb.Bin(term.OOr, x, y)
		case token.XOR:
			return tb.Bin(term.OXor, x, y)
		case token.AND_NOT:
			return tb.Bin(term.OAnd, x, tb.Not(y))
		case token.SHL, token.SHR:
			return ex.shift(op, x, signed, y, yt)
		case token.EQL:
			return tb.Eq(x, y)
		case token.NEQ:
			return tb.BNot(tb.Eq(x, y))
		case token.LSS:
			if signed {
				return tb.Cmp(term.OSlt, x, y)
			}
			return tb.Cmp(term.OUlt, x, y)
		case token.LEQ:
			if signed {
				return tb.Cmp(term.OSle, x, y)
			}
			return tb.Cmp(term.OUle, x, y)
		case token.GTR:
			if signed {
				return tb.Cmp(term.OSlt, y, x)
			}
			return tb.Cmp(term.OUlt, y, x)
		case token.GEQ:
			if signed {
				return tb.Cmp(term.OSle, y, x)
			}
			return tb.Cmp(term.OUle, y, x)
		}
	case Float:
		y := yv.(Float)
		f32 := false
		if b, ok := xt.Underlying().(*types.Basic); ok && b.Kind() == types.Float32 {
			f32 = true
		}
		rnd := func(f float64) Value {
			if f32 {
				return Float{float64(float32(f))}
			}
			return Float{f}
		}
		switch op {
		case token.ADD:
			return rnd(x.V + y.V)
		case token.SUB:
			return rnd(x.V - y.V)
		case token.MUL:
			return rnd(x.V * y.V)
		case token.QUO:
			return rnd(x.V / y.V)
		case token.EQL:
			return tb.Bool(x.V == y.V)
		case token.NEQ:
			return tb.Bool(x.V != y.V)
		case token.LSS:
			return tb.Bool(x.V < y.V)
		case token.LEQ:
			return tb.Bool(x.V <= y.V)
		case token.GTR:
			return tb.Bool(x.V > y.V)
		case token.GEQ:
			return tb.Bool(x.V >= y.V)
		}
	case Str:
		y := yv.(Str)
		switch op {
		case token.ADD:
			b := make([]Value, 0, len(x.B)+len(y.B))
			b = append(b, x.B...)
			b = append(b, y.B...)
			return Str{B: b}
		case token.EQL:
			return ex.equals(x, y)
		case token.NEQ:
			return tb.BNot(ex.equals(x, y))
		case token.LSS:
			return ex.strLess(x, y, false)
		case token.LEQ:
			return ex.strLess(x, y, true)
		case token.GTR:
			return ex.strLess(y, x, false)
		case token.GEQ:
			return ex.strLess(y, x, true)
		}
	}
	switch op {
	case token.EQL:
		return ex.equals(xv, yv)
	case token.NEQ:
		return tb.BNot(ex.equals(xv, yv))
	}
	panic(ex.unsupported(fmt.Sprintf("binop %s on %T", op, xv)))
}

func (ex *Exec) strLess(a, b Str, orEq bool) *term.T {
	tb := ex.tb
	n := len(a.B)
	if len(b.B) < n {
		n = len(b.B)
	}
	var res *term.T
	if orEq {
		res = tb.Bool(len(a.B) <= len(b.B))
	} else {
		res = tb.Bool(len(a.B) < len(b.B))
	}
	for i := n - 1; i >= 0; i-- {
		x, y := a.B[i].(*term.T), b.B[i].(*term.T)
		res = tb.Ite(tb.Cmp(term.OUlt, x, y), tb.True, tb.Ite(tb.Eq(x, y), res, tb.False))
	}
	return res
}

func (ex *Exec) shift(op token.Token, x *term.T, xsigned bool, y *term.T, yt types.Type) Value {
	tb := ex.tb
	_, ysigned, _ := typeIntWidth(yt)
	if ysigned {
		if !ex.branch(tb.BNot(tb.Cmp(term.OSlt, y, tb.Const(int(y.W), 0)))) {
			panic(ex.goPanicStr("negative shift amount"))
		}
	}
	w := int(x.W)
	var o term.Op
	switch {
	case op == token.SHL:
		o = term.OShl
	case xsigned:
		o = term.OAShr
	default:
		o = term.OLShr
	}
	if int(y.W) <= w {
		return tb.Bin(o, x, tb.ZExt(y, w))
	}
	// wider count: saturate
	big := tb.Cmp(term.OUle, tb.Const(int(y.W), uint64(w)), y)
	yy := tb.Extract(y, w-1, 0)
	var over *term.T
	if o == term.OAShr {
		over = tb.Bin(term.OAShr, x, tb.Const(w, uint64(w-1)))
	} else {
		over = tb.Const(w, 0)
	}
	return tb.Ite(big, over, tb.Bin(o, x, yy))
}

func (ex *Exec) convert(from, to types.Type, v Value) Value {
	tb := ex.tb
	fu, tu := from.Underlying(), to.Underlying()
	// pointers / unsafe
	if _, ok := tu.(*types.Pointer); ok {
		return v
	}
	if tb2, ok := tu.(*types.Basic); ok && tb2.Kind() == types.UnsafePointer {
		if _, isPtr := v.(*Value); isPtr {
			return v
		}
		if _, isSym := v.(SymPtr); isSym {
			return v
		}
		panic(ex.unsupported("conversion to unsafe.Pointer from " + from.String()))
	}
	if fw, fsigned, ok := typeIntWidth(from); ok {
		x := v.(*term.T)
		if tw, _, ok := typeIntWidth(to); ok {
			switch {
			case tw == fw:
				return x
			case tw < fw:
				return tb.Extract(x, tw-1, 0)
			case fsigned:
				return tb.SExt(x, tw)
			default:
				return tb.ZExt(x, tw)
			}
		}
		if isFloat(to) {
			if x.Op != term.OConst {
				panic(ex.unsupported("symbolic int to float"))
			}
			var f float64
			if fsigned {
				f = float64(x.SignedVal())
			} else {
				f = float64(x.V)
			}
			if tu.(*types.Basic).Kind() == types.Float32 {
				f = float64(float32(f))
			}
			return Float{f}
		}
		if isString(to) {
			if x.Op != term.OConst {
				panic(ex.unsupported("symbolic rune to string"))
			}
			return ex.mkStr(string(rune(x.SignedVal())))
		}
		if b, ok := tu.(*types.Basic); ok && b.Kind() == types.UnsafePointer {
			panic(ex.unsupported("uintptr to unsafe.Pointer"))
		}
	}
	if isFloat(from) {
		f := v.(Float).V
		if tw, tsigned, ok := typeIntWidth(to); ok {
			if tsigned {
				return tb.Const(tw, uint64(int64(f)))
			}
			return tb.Const(tw, uint64(f))
		}
		if isFloat(to) {
			if tu.(*types.Basic).Kind() == types.Float32 {
				return Float{float64(float32(f))}
			}
			return Float{f}
		}
	}
	if isString(from) {
		s := v.(Str)
		if sl, ok := tu.(*types.Slice); ok {
			eb, _ := sl.Elem().Underlying().(*types.Basic)
			if eb != nil && eb.Kind() == types.Uint8 {
				b := make([]Value, len(s.B))
				copy(b, s.B)
				return Slice{V: b}
			}
			if eb != nil && eb.Kind() == types.Int32 {
				cs, ok := concStr(s)
				if !ok {
					panic(ex.unsupported("symbolic string to []rune"))
				}
				var out []Value
				for _, r := range cs {
					out = append(out, tb.Const(32, uint64(r)))
				}
				if out == nil {
					out = []Value{}
				}
				return Slice{V: out}
			}
		}
		if isString(to) {
			return v
		}
	}
	if sl, ok := fu.(*types.Slice); ok {
		s := v.(Slice)
		if isString(to) {
			eb, _ := sl.Elem().Underlying().(*types.Basic)
			if eb != nil && eb.Kind() == types.Uint8 {
				b := make([]Value, len(s.V))
				copy(b, s.V)
				return Str{B: b}
			}
			if eb != nil && eb.Kind() == types.Int32 {
				var sb strings.Builder
				for _, e := range s.V {
					t := e.(*term.T)
					if t.Op != term.OConst {
						panic(ex.unsupported("symbolic []rune to string"))
					}
					sb.WriteRune(rune(t.SignedVal()))
				}
				return ex.mkStr(sb.String())
			}
		}
		if _, ok := tu.(*types.Slice); ok {
			return v
		}
	}
	if b, ok := fu.(*types.Basic); ok && b.Kind() == types.UnsafePointer {
		if tw, _, ok := typeIntWidth(to); ok && tw == 64 {
			panic(ex.unsupported("unsafe.Pointer to uintptr"))
		}
		return v
	}
	if types.Identical(fu, tu) {
		return v
	}
	panic(ex.unsupported(fmt.Sprintf("conversion %s -> %s", from, to)))
}

var _ = math.MaxInt64

func (ex *Exec) loadThroughLeaves(base []Value, idx *term.T, depth int) (*term.T, bool) {
	if idx.Op == term.OConst {
		if idx.V >= uint64(len(base)) {
			return nil, false
		}
		return base[idx.V].(*term.T), true
	}
	if idx.Op != term.OIte || depth > 300 {
		return nil, false
	}
	a, ok := ex.loadThroughLeaves(base, idx.B, depth+1)
	if !ok {
		return nil, false
	}
	b, ok := ex.loadThroughLeaves(base, idx.C, depth+1)
	if !ok {
		return nil, false
	}
	return ex.tb.Ite(idx.A, a, b), true
}

var traceFn = os.Getenv("GOSYM_TRACEFN")

func dbgVal(v Value) string {
	switch x := v.(type) {
	case *term.T:
		s := term.Sprint(x)
		if len(s) > 80 {
			s = s[:80]
		}
		return s
	case Struct:
		var sb strings.Builder
		sb.WriteString("{")
		for _, e := range x {
			sb.WriteString(dbgVal(e) + ", ")
		}
		return sb.String() + "}"
	case Slice:
		return fmt.Sprintf("slice(len=%d,cap=%d)", len(x.V), cap(x.V))
	case *Value:
		if x == nil {
			return "nilptr"
		}
		return fmt.Sprintf("&%p->%s", x, dbgVal(*x))
	case Str:
		if s, ok := concStr(x); ok {
			return fmt.Sprintf("%q", s)
		}
		return fmt.Sprintf("str(len=%d)", len(x.B))
	}
	return fmt.Sprintf("%T", v)
}

// storeInPlace assigns v to the cell. Aggregates are written element-wise into the
// existing backing cells, so pointers to fields/elements taken earlier stay valid
// (memory semantics of `*p = T{...}`: go/ssa takes field addresses before the zeroing store).
func storeInPlace(a *Value, v Value) {
	switch x := v.(type) {
	case Struct:
		if cur, ok := (*a).(Struct); ok && len(cur) == len(x) {
			for i := range x {
				storeInPlace(&cur[i], x[i])
			}
			return
		}
	case Array:
		if cur, ok := (*a).(Array); ok && len(cur) == len(x) {
			for i := range x {
				storeInPlace(&cur[i], x[i])
			}
			return
		}
	}
	*a = copyVal(v)
}
