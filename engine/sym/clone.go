package sym

import (
	"fmt"
	"sort"
	"unsafe"

	"golang.org/x/tools/go/ssa"

	"verif/engine/term"
)

// Snapshot of the program state right after package initialisation: the
// initialisers are executed once per worker and every path starts from a deep
// copy (aliasing-preserving) of that state instead of re-running them.
type initSnapshot struct {
	globals map[*ssa.Global]*Value
	inited  map[*ssa.Package]bool
	uninit  map[string]bool
	onces   map[*Value]bool
	pools   map[*Value][]Value
	steps   int64
}

type region struct {
	start uintptr
	n     int // cells
	old   []Value
	neu   []Value
}

const cellSize = unsafe.Sizeof(Value(nil))

type cloner struct {
	tb      *term.B
	regions []region
	cells   map[*Value]*Value
	maps    map[*Map]*Map
	chans   map[*Chan]*Chan
	clos    map[*Closure]*Closure
	iters   map[*Iter]*Iter
	ok      bool
	why     string
	// pass 1
	windows []region
	seenWin map[uintptr]int
	seenPtr map[*Value]bool
	seenMap map[*Map]bool
	seenClo map[*Closure]bool
	seenCh  map[*Chan]bool
}

func winStart(v []Value) uintptr {
	if cap(v) == 0 {
		return 0
	}
	return uintptr(unsafe.Pointer(unsafe.SliceData(v)))
}

// ---- pass 1: discover backing regions ----

func (c *cloner) scanWindow(v []Value) {
	if cap(v) == 0 {
		return
	}
	full := v[:cap(v)]
	st := winStart(full)
	if n, ok := c.seenWin[st]; ok && n >= len(full) {
		return
	}
	c.seenWin[st] = len(full)
	c.windows = append(c.windows, region{start: st, n: len(full), old: full})
	for _, e := range full {
		c.scan(e)
	}
}

func (c *cloner) scan(v Value) {
	switch x := v.(type) {
	case nil, *term.T, Float, *ssa.Function, *ssa.Builtin, Opaque:
	case Str:
		c.scanWindow(x.B)
	case Struct:
		c.scanWindow([]Value(x))
	case Array:
		c.scanWindow([]Value(x))
	case Slice:
		c.scanWindow(x.V)
	case DataPtr:
		c.scanWindow(x.V)
	case SymPtr:
		c.scanWindow(x.Base)
	case Tuple:
		for _, e := range x {
			c.scan(e)
		}
	case Iface:
		c.scan(x.V)
	case *Value:
		if x == nil || c.seenPtr[x] {
			return
		}
		c.seenPtr[x] = true
		c.scan(*x)
	case *Map:
		if x == nil || c.seenMap[x] {
			return
		}
		c.seenMap[x] = true
		for _, e := range x.entries {
			c.scan(e.k)
			c.scan(e.v)
		}
	case *Chan:
		if x == nil || c.seenCh[x] {
			return
		}
		c.seenCh[x] = true
		for _, e := range x.buf {
			c.scan(e)
		}
	case *Closure:
		if x == nil || c.seenClo[x] {
			return
		}
		c.seenClo[x] = true
		for _, e := range x.Env {
			c.scan(e)
		}
	case *Iter:
		c.ok, c.why = false, "live iterator in snapshot"
	default:
		c.ok, c.why = false, fmt.Sprintf("unclonable value %T", v)
	}
}

func (c *cloner) buildRegions() {
	sort.Slice(c.windows, func(i, j int) bool { return c.windows[i].start < c.windows[j].start })
	for _, w := range c.windows {
		if k := len(c.regions); k > 0 {
			last := &c.regions[k-1]
			end := last.start + uintptr(last.n)*cellSize
			if w.start < end {
				// overlapping windows of one backing array: extend
				wend := w.start + uintptr(w.n)*cellSize
				if wend > end {
					extra := int((wend - end) / cellSize)
					off := int((end - w.start) / cellSize)
					last.old = append(last.old[:last.n:last.n], w.old[off:off+extra]...)
					last.n += extra
				}
				continue
			}
		}
		c.regions = append(c.regions, region{start: w.start, n: w.n, old: w.old})
	}
	for i := range c.regions {
		c.regions[i].neu = make([]Value, c.regions[i].n)
	}
}

func (c *cloner) findRegion(addr uintptr) (*region, int) {
	i := sort.Search(len(c.regions), func(i int) bool { return c.regions[i].start > addr })
	if i == 0 {
		return nil, 0
	}
	r := &c.regions[i-1]
	if addr < r.start+uintptr(r.n)*cellSize {
		return r, int((addr - r.start) / cellSize)
	}
	return nil, 0
}

// ---- pass 2: copy ----

func (c *cloner) window(v []Value) []Value {
	if v == nil {
		return nil
	}
	if cap(v) == 0 {
		return []Value{}
	}
	r, off := c.findRegion(winStart(v[:cap(v)]))
	if r == nil {
		c.ok, c.why = false, "window without region"
		return nil
	}
	return r.neu[off : off+len(v) : off+cap(v)]
}

func (c *cloner) val(v Value) Value {
	switch x := v.(type) {
	case nil, Float, *ssa.Function, *ssa.Builtin, Opaque:
		return v
	case *term.T:
		switch x.Op {
		case term.OConst:
			return c.tb.Const(int(x.W), x.V)
		case term.OTrue:
			return c.tb.True
		case term.OFalse:
			return c.tb.False
		}
		c.ok, c.why = false, "symbolic term in init snapshot"
		return v
	case Str:
		return Str{B: c.window(x.B)}
	case Struct:
		return Struct(c.window([]Value(x)))
	case Array:
		return Array(c.window([]Value(x)))
	case Slice:
		return Slice{V: c.window(x.V)}
	case DataPtr:
		return DataPtr{V: c.window(x.V)}
	case Tuple:
		n := make(Tuple, len(x))
		for i, e := range x {
			n[i] = c.val(e)
		}
		return n
	case Iface:
		return Iface{T: x.T, V: c.val(x.V)}
	case *Value:
		return c.ptr(x)
	case *Map:
		if x == nil {
			return x
		}
		if m, ok := c.maps[x]; ok {
			return m
		}
		m := &Map{index: map[interface{}]int{}, keyT: x.keyT, hasSym: x.hasSym, n: x.n}
		c.maps[x] = m
		m.entries = make([]mapEntry, len(x.entries))
		for i, e := range x.entries {
			m.entries[i] = mapEntry{k: c.val(e.k), v: c.val(e.v), deleted: e.deleted}
			if !e.deleted {
				if ck, conc := ckey(m.entries[i].k); conc {
					m.index[ck] = i
				}
			}
		}
		return m
	case *Chan:
		if x == nil {
			return x
		}
		if n, ok := c.chans[x]; ok {
			return n
		}
		n := &Chan{cap: x.cap, closed: x.closed}
		c.chans[x] = n
		for _, e := range x.buf {
			n.buf = append(n.buf, c.val(e))
		}
		return n
	case *Closure:
		if x == nil {
			return x
		}
		if n, ok := c.clos[x]; ok {
			return n
		}
		n := &Closure{Fn: x.Fn, Env: make([]Value, len(x.Env))}
		c.clos[x] = n
		for i, e := range x.Env {
			n.Env[i] = c.val(e)
		}
		return n
	}
	c.ok, c.why = false, fmt.Sprintf("unclonable value %T", v)
	return v
}

func (c *cloner) ptr(p *Value) *Value {
	if p == nil {
		return nil
	}
	if r, idx := c.findRegion(uintptr(unsafe.Pointer(p))); r != nil {
		return &r.neu[idx]
	}
	if n, ok := c.cells[p]; ok {
		return n
	}
	n := new(Value)
	c.cells[p] = n
	*n = c.val(*p)
	return n
}

// cloneSnapshot returns a deep copy of snap whose constants live in tb.
func cloneSnapshot(snap *initSnapshot, tb *term.B) (*initSnapshot, bool, string) {
	c := &cloner{tb: tb, cells: map[*Value]*Value{}, maps: map[*Map]*Map{}, chans: map[*Chan]*Chan{}, clos: map[*Closure]*Closure{},
		ok: true, seenWin: map[uintptr]int{}, seenPtr: map[*Value]bool{}, seenMap: map[*Map]bool{}, seenClo: map[*Closure]bool{}, seenCh: map[*Chan]bool{}}
	// deterministic traversal order: constants must be interned in the same order on every path
	gl := make([]*ssa.Global, 0, len(snap.globals))
	for g := range snap.globals {
		gl = append(gl, g)
	}
	sort.Slice(gl, func(i, j int) bool {
		a, b := gl[i], gl[j]
		if a.Pkg != b.Pkg && a.Pkg != nil && b.Pkg != nil && a.Pkg.Pkg.Path() != b.Pkg.Pkg.Path() {
			return a.Pkg.Pkg.Path() < b.Pkg.Pkg.Path()
		}
		return a.Name() < b.Name()
	})
	for _, g := range gl {
		c.scan(snap.globals[g])
	}
	for p, l := range snap.pools {
		c.scan(p)
		for _, e := range l {
			c.scan(e)
		}
	}
	for p := range snap.onces {
		c.scan(p)
	}
	if !c.ok {
		return nil, false, c.why
	}
	c.buildRegions()
	// fill regions
	for i := range c.regions {
		r := &c.regions[i]
		for j, e := range r.old {
			r.neu[j] = c.val(e)
		}
	}
	out := &initSnapshot{globals: make(map[*ssa.Global]*Value, len(snap.globals)), inited: map[*ssa.Package]bool{}, uninit: map[string]bool{},
		onces: map[*Value]bool{}, pools: map[*Value][]Value{}, steps: snap.steps}
	for _, g := range gl {
		out.globals[g] = c.ptr(snap.globals[g])
	}
	for k, v := range snap.inited {
		out.inited[k] = v
	}
	for k, v := range snap.uninit {
		out.uninit[k] = v
	}
	for p, v := range snap.onces {
		out.onces[c.ptr(p)] = v
	}
	for p, l := range snap.pools {
		var nl []Value
		for _, e := range l {
			nl = append(nl, c.val(e))
		}
		out.pools[c.ptr(p)] = nl
	}
	if !c.ok {
		return nil, false, c.why
	}
	return out, true, ""
}
