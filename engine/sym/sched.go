package sym

import (
	"fmt"
	"sort"

	"verif/engine/term"
)

// Bounded schedule exploration for harness-level threads (verifrt.T.Threads).
//
// Every thread of the harness runs on its own Go goroutine, but exactly one of them
// holds the baton at any time, so the interpreter state is never touched concurrently.
// A thread can lose the baton only at a scheduling point: immediately before an
// acquire-like synchronisation operation (Lock, RLock, Pool.Get/Put, atomics, channel
// operations, Once, WaitGroup), when it blocks, and when it ends. Which thread runs
// next is a fork of the path (ex.choice), so the set of schedules is explored like any
// other branching, with all data still symbolic. Switching away from a thread that could
// have continued counts as a preemption; the number of preemptions per path is bounded.
//
// Switching only before acquires is complete for data-race-free code (acquires are right
// movers, releases left movers, everything else is thread-local); the executor therefore
// also runs a happens-before race detector over every load, store, copy and append made
// by the threads and reports a race as a violation of <property>.data-race-free.

type thread struct {
	id       int
	resume   chan struct{}
	done     bool
	cond     func() bool // non-nil: blocked until cond() holds
	cur      *frame
	depth    int
	tryDepth int
	vc       []int64
	what     string
}

type threadKilled struct{}

type shadowCell struct {
	wTid   int
	wClk   int64
	wWhere string
	rClk   []int64 // per thread: clock of its last read (0 = none)
	rWhere []string
}

type sched struct {
	threads  []*thread
	cur      int
	bound    int
	preempts int
	points   int
	abort    interface{}
	kill     chan struct{}
	shadow   map[interface{}]*shadowCell
	syncVC   map[interface{}][]int64
	raced    map[string]bool
	nRaces   int
}

func (s *sched) me() *thread { return s.threads[s.cur] }

func joinVC(a, b []int64) []int64 {
	for i := range b {
		if i < len(a) && b[i] > a[i] {
			a[i] = b[i]
		}
	}
	return a
}

// acquireEdge / releaseEdge maintain the happens-before relation through a sync object.
func (ex *Exec) acquireEdge(obj interface{}) {
	s := ex.sched
	if s == nil {
		return
	}
	if vc := s.syncVC[obj]; vc != nil {
		t := s.me()
		t.vc = joinVC(t.vc, vc)
	}
}

func (ex *Exec) releaseEdge(obj interface{}) {
	s := ex.sched
	if s == nil {
		return
	}
	t := s.me()
	vc := s.syncVC[obj]
	if vc == nil {
		vc = make([]int64, len(s.threads))
		s.syncVC[obj] = vc
	}
	joinVC(vc, t.vc)
	t.vc[t.id]++
}

type rdKey struct{ p *Value }

// touch records one memory access of the running thread and reports a data race.
func (ex *Exec) touch(p *Value, write bool) {
	s := ex.sched
	if s == nil || p == nil {
		return
	}
	ex.touch1(s, p, write)
	switch x := (*p).(type) {
	case Struct:
		for i := range x {
			ex.touch(&x[i], write)
		}
	case Array:
		if len(x) <= 64 {
			for i := range x {
				ex.touch(&x[i], write)
			}
		}
	}
}

func (ex *Exec) touchSlice(v []Value, write bool) {
	s := ex.sched
	if s == nil {
		return
	}
	for i := range v {
		ex.touch1(s, &v[i], write)
	}
}

// touchObj records an access to a non-cell object (a Go map).
func (ex *Exec) touchObj(o interface{}, write bool) {
	if s := ex.sched; s != nil && ex.noTouch == 0 {
		ex.touch1(s, o, write)
	}
}

func (ex *Exec) touch1(s *sched, p interface{}, write bool) {
	ex.raceChecks++
	t := s.me()
	c := s.shadow[p]
	if c == nil {
		c = &shadowCell{wTid: -1}
		s.shadow[p] = c
	}
	if c.wTid >= 0 && c.wTid != t.id && c.wClk > t.vc[c.wTid] {
		ex.reportRace(s, "write", c.wWhere, write)
	}
	if write {
		for o, clk := range c.rClk {
			if o != t.id && clk > t.vc[o] {
				ex.reportRace(s, "read", c.rWhere[o], write)
			}
		}
		c.wTid, c.wClk = t.id, t.vc[t.id]
		c.wWhere = ex.whereShort()
		c.rClk, c.rWhere = nil, nil
		return
	}
	if c.rClk == nil {
		c.rClk = make([]int64, len(s.threads))
		c.rWhere = make([]string, len(s.threads))
	}
	if c.rClk[t.id] != t.vc[t.id] {
		c.rClk[t.id] = t.vc[t.id]
		c.rWhere[t.id] = ex.whereShort()
	}
}

func (ex *Exec) whereShort() string {
	fr := ex.cur
	if fr == nil || fr.lastInstr == nil {
		return "?"
	}
	pos := ex.prog.Fset.Position(fr.lastInstr.Pos())
	for f := fr; !pos.IsValid() && f != nil; f = f.caller {
		if f.lastInstr != nil {
			pos = ex.prog.Fset.Position(f.lastInstr.Pos())
		}
	}
	return fmt.Sprintf("%s (%s:%d)", fr.fn.String(), shortFile(pos.Filename), pos.Line)
}

func (ex *Exec) reportRace(s *sched, otherKind, otherWhere string, write bool) {
	k := "read"
	if write {
		k = "write"
	}
	here := ex.whereShort()
	key := here + "|" + otherWhere
	if s.raced[key] {
		return
	}
	s.raced[key] = true
	s.nRaces++
	if len(ex.decisions) < len(ex.prefix) {
		return // reported by the path that produced this prefix
	}
	id := ex.sh.Property + ".data-race-free"
	ex.assertMsg(ex.tb.False, id, fmt.Sprintf("unsynchronised %s at %s races with %s at %s", k, here, otherKind, otherWhere))
}

// ---- scheduling ----

func (s *sched) enabled(t *thread) bool {
	return !t.done && (t.cond == nil || t.cond())
}

// schedPoint is called by the running thread immediately before a synchronisation
// operation; cond (optional) says whether the operation can complete now.
func (ex *Exec) schedPoint(cond func() bool, what string) {
	s := ex.sched
	if s == nil || ex.noSched > 0 {
		return
	}
	if ex.sh.SchedPkgs != nil {
		for f := ex.cur; f != nil; f = f.caller {
			if f.fn.Pkg != nil {
				if pp := f.fn.Pkg.Pkg.Path(); !ex.sh.SchedPkgs[pp] {
					panic(pathAbort{"unsupported", "synchronisation operation (" + what + ") in " + pp + ", which has no replay points; list the function under atomic_funcs or the package under instrument"})
				}
				break
			}
		}
	}
	me := s.me()
	for {
		me.cond, me.what = cond, what
		next := ex.pickNext(s, me)
		if next != me {
			ex.switchTo(s, me, next)
		}
		if cond == nil || cond() {
			me.cond = nil
			return
		}
	}
}

func (ex *Exec) pickNext(s *sched, me *thread) *thread {
	var opts []*thread
	meEnabled := me != nil && s.enabled(me)
	if meEnabled {
		opts = append(opts, me)
	}
	if !meEnabled || s.preempts < s.bound {
		for _, t := range s.threads {
			if t != me && s.enabled(t) {
				opts = append(opts, t)
			}
		}
	}
	if len(opts) == 0 {
		var sb []string
		for _, t := range s.threads {
			if !t.done {
				sb = append(sb, fmt.Sprintf("thread %d waits for %s", t.id, t.what))
			}
		}
		sort.Strings(sb)
		if len(ex.decisions) >= len(ex.prefix) {
			ex.assertMsg(ex.tb.False, ex.sh.Property+".no-deadlock", fmt.Sprint(sb))
		}
		panic(pathAbort{"stop", "deadlock: " + fmt.Sprint(sb)})
	}
	k := ex.choice(len(opts))
	next := opts[k]
	if meEnabled && next != me {
		s.preempts++
		ex.preemptsUsed++
	}
	ex.schedPoints++
	ex.draws = append(ex.draws, drawRec{Name: fmt.Sprintf("sched_%d", s.points), Val: uint64(next.id), W: 32})
	s.points++
	return next
}

func (ex *Exec) switchTo(s *sched, me, next *thread) {
	if me != nil {
		me.cur, me.depth, me.tryDepth = ex.cur, ex.depth, ex.tryDepth
	}
	s.cur = next.id
	ex.cur, ex.depth, ex.tryDepth = next.cur, next.depth, next.tryDepth
	next.resume <- struct{}{}
	if me == nil || me.done {
		return
	}
	select {
	case <-me.resume:
	case <-s.kill:
		panic(threadKilled{})
	}
	if me.id == 0 && s.abort != nil {
		return
	}
	ex.cur, ex.depth, ex.tryDepth = me.cur, me.depth, me.tryDepth
}

// runThreads implements verifrt.T.Threads.
func (ex *Exec) runThreads(caller *frame, bound int, fns []Value) {
	if ex.sched != nil {
		panic(pathAbort{"engine", "nested Threads"})
	}
	n := len(fns) + 1
	s := &sched{bound: bound, kill: make(chan struct{}), shadow: map[interface{}]*shadowCell{}, syncVC: map[interface{}][]int64{}, raced: map[string]bool{}}
	main := &thread{id: 0, resume: make(chan struct{}), vc: make([]int64, n), what: "the end of all threads"}
	main.vc[0] = 1
	s.threads = append(s.threads, main)
	for i, f := range fns {
		t := &thread{id: i + 1, resume: make(chan struct{}), vc: make([]int64, n), what: "start"}
		copy(t.vc, main.vc)
		t.vc[t.id] = 1
		s.threads = append(s.threads, t)
		f := f
		go func() {
			defer func() {
				r := recover()
				if _, ok := r.(threadKilled); ok {
					return
				}
				if r != nil {
					if gp, ok := r.(*goPanic); ok {
						r = pathAbort{"crash", "uncaught panic on thread: " + gp.msg}
						if len(ex.decisions) >= len(ex.prefix) {
							func() {
								defer func() { recover() }()
								ex.assertMsg(ex.tb.False, ex.sh.Property+".no-crash", gp.msg)
							}()
						}
					}
					s.abort = r
					s.cur = 0
					main.resume <- struct{}{}
					return
				}
			}()
			select {
			case <-t.resume:
			case <-s.kill:
				return
			}
			ex.callValue(nil, f, nil, nil)
			t.done = true
			main.vc = joinVC(main.vc, t.vc)
			next := ex.pickNext(s, t)
			ex.switchTo(s, t, next)
		}()
	}
	main.vc[0]++
	main.cond = func() bool {
		for _, t := range s.threads[1:] {
			if !t.done {
				return false
			}
		}
		return true
	}
	ex.sched = s
	defer func() {
		close(s.kill)
		ex.sched = nil
	}()
	main.cur, main.depth, main.tryDepth = ex.cur, ex.depth, ex.tryDepth
	next := ex.pickNext(s, main)
	if next != main {
		ex.switchTo(s, main, next)
	}
	ex.cur, ex.depth, ex.tryDepth = main.cur, main.depth, main.tryDepth
	if s.abort != nil {
		panic(s.abort)
	}
	main.cond = nil
}

var _ = term.OConst
