package sym

import (
	"fmt"
	"go/types"
	"strings"

	"golang.org/x/tools/go/ssa"

	"verif/engine/term"
)

// Value is a run-time value of the interpreted program:
//
//	*term.T        integers (their exact Go width) and bool (width 0)
//	Float          float32/float64 (concrete only)
//	Complex        unsupported
//	Str            string (immutable view of byte cells)
//	*Value         pointer (nil pointer = (*Value)(nil))
//	SymPtr         pointer to base[idx] with a symbolic in-range index
//	Struct, Array  aggregates (value semantics: copied on load/store)
//	Slice          slice sharing its backing cells
//	*Map, *Chan    reference types
//	Iface          interface value (T == nil: nil interface)
//	*ssa.Function, *ssa.Builtin, *Closure   function values (nil = Value(nil))
//	Tuple          multiple results
//	*Iter          range iterator
//	Opaque         stub token
type Value interface{}

type Float struct {
	V float64
}

type Str struct {
	B []Value
}

type SymPtr struct {
	Base []Value
	Idx  *term.T // 64-bit, asserted in range
}

type Struct []Value
type Array []Value

type Slice struct {
	V []Value
}

type mapEntry struct {
	k, v    Value
	deleted bool
}

type Map struct {
	entries []mapEntry
	index   map[interface{}]int // concrete keys -> entry index (only valid if !hasSym)
	hasSym  bool
	n       int
	keyT    types.Type
}

type Chan struct {
	buf    []Value
	cap    int
	closed bool
}

type Iface struct {
	T types.Type
	V Value
}

type Closure struct {
	Fn  *ssa.Function
	Env []Value
}

type Tuple []Value

type Iter struct {
	m    *Map
	s    Str
	pos  int
	isStr bool
}

type Opaque struct {
	Tag string
	V   interface{}
}

func (s Str) Len() int { return len(s.B) }

// concStr returns the Go string if every byte is concrete.
func concStr(s Str) (string, bool) {
	buf := make([]byte, len(s.B))
	for i, c := range s.B {
		t := c.(*term.T)
		if t.Op != term.OConst {
			return "", false
		}
		buf[i] = byte(t.V)
	}
	return string(buf), true
}

func (ex *Exec) mkStr(s string) Str {
	if v, ok := ex.strCache[s]; ok {
		return v
	}
	b := make([]Value, len(s))
	for i := 0; i < len(s); i++ {
		b[i] = ex.byteConst[s[i]]
	}
	v := Str{B: b}
	if len(s) < 256 {
		ex.strCache[s] = v
	}
	return v
}

func isNilPtr(v Value) bool {
	p, ok := v.(*Value)
	return ok && p == nil
}

// width of a basic integer kind.
func intWidth(b *types.Basic) (w int, signed bool, ok bool) {
	switch b.Kind() {
	case types.Int8:
		return 8, true, true
	case types.Int16:
		return 16, true, true
	case types.Int32:
		return 32, true, true
	case types.Int64, types.Int, types.UntypedInt, types.UntypedRune:
		return 64, true, true
	case types.Uint8:
		return 8, false, true
	case types.Uint16:
		return 16, false, true
	case types.Uint32:
		return 32, false, true
	case types.Uint64, types.Uint, types.Uintptr:
		return 64, false, true
	}
	return 0, false, false
}

func typeIntWidth(t types.Type) (int, bool, bool) {
	if b, ok := t.Underlying().(*types.Basic); ok {
		return intWidth(b)
	}
	return 0, false, false
}

func isFloat(t types.Type) bool {
	b, ok := t.Underlying().(*types.Basic)
	return ok && b.Info()&types.IsFloat != 0
}

func isString(t types.Type) bool {
	b, ok := t.Underlying().(*types.Basic)
	return ok && b.Info()&types.IsString != 0
}

func isBool(t types.Type) bool {
	b, ok := t.Underlying().(*types.Basic)
	return ok && b.Info()&types.IsBoolean != 0
}

// zero returns the zero value of t.
func (ex *Exec) zero(t types.Type) Value {
	switch u := t.Underlying().(type) {
	case *types.Basic:
		if w, _, ok := intWidth(u); ok {
			return ex.tb.Const(w, 0)
		}
		switch {
		case u.Info()&types.IsBoolean != 0:
			return ex.tb.False
		case u.Info()&types.IsString != 0:
			return Str{}
		case u.Info()&types.IsFloat != 0:
			return Float{0}
		case u.Kind() == types.UnsafePointer:
			return (*Value)(nil)
		case u.Kind() == types.UntypedNil:
			return nil
		}
		panic(ex.unsupported("zero of basic " + u.String()))
	case *types.Pointer:
		return (*Value)(nil)
	case *types.Struct:
		s := make(Struct, u.NumFields())
		for i := range s {
			s[i] = ex.zero(u.Field(i).Type())
		}
		return s
	case *types.Array:
		n := int(u.Len())
		a := make(Array, n)
		if n > 0 {
			z := ex.zero(u.Elem())
			switch z.(type) {
			case Struct, Array:
				a[0] = z
				for i := 1; i < n; i++ {
					a[i] = ex.zero(u.Elem())
				}
			default:
				for i := range a {
					a[i] = z
				}
			}
		}
		return a
	case *types.Slice:
		return Slice{}
	case *types.Map:
		return (*Map)(nil)
	case *types.Chan:
		return (*Chan)(nil)
	case *types.Interface:
		return Iface{}
	case *types.Signature:
		return nil
	case *types.Tuple:
		tp := make(Tuple, u.Len())
		for i := range tp {
			tp[i] = ex.zero(u.At(i).Type())
		}
		return tp
	}
	panic(ex.unsupported("zero of " + t.String()))
}

// copyVal implements Go's value semantics for aggregates.
func copyVal(v Value) Value {
	switch x := v.(type) {
	case Struct:
		n := make(Struct, len(x))
		for i, e := range x {
			n[i] = copyVal(e)
		}
		return n
	case Array:
		n := make(Array, len(x))
		needDeep := false
		if len(x) > 0 {
			switch x[0].(type) {
			case Struct, Array:
				needDeep = true
			}
		}
		if needDeep {
			for i, e := range x {
				n[i] = copyVal(e)
			}
		} else {
			copy(n, x)
		}
		return n
	}
	return v
}

// ckey maps a value to a comparable Go value if it is fully concrete.
func ckey(v Value) (interface{}, bool) {
	switch x := v.(type) {
	case *term.T:
		if x.IsConst() {
			if x.W == 0 {
				return x.Op == term.OTrue, true
			}
			return x.V, true
		}
		return nil, false
	case Str:
		s, ok := concStr(x)
		if !ok {
			return nil, false
		}
		return s, true
	case *Value:
		return x, true
	case Float:
		return x.V, true
	case Iface:
		if x.T == nil {
			return "nil-iface", true
		}
		k, ok := ckey(x.V)
		if !ok {
			return nil, false
		}
		return [2]interface{}{x.T.String(), k}, true
	case Struct:
		var sb strings.Builder
		for _, e := range x {
			k, ok := ckey(e)
			if !ok {
				return nil, false
			}
			fmt.Fprintf(&sb, "%T:%v|", k, k)
		}
		return sb.String(), true
	case Array:
		var sb strings.Builder
		for _, e := range x {
			k, ok := ckey(e)
			if !ok {
				return nil, false
			}
			fmt.Fprintf(&sb, "%v,", k)
		}
		return sb.String(), true
	case *Chan:
		return x, true
	case *Map:
		return x, true
	case nil:
		return "nil", true
	}
	return nil, false
}

// equals builds the Bool term for x == y (same static type).
func (ex *Exec) equals(x, y Value) *term.T {
	tb := ex.tb
	switch a := x.(type) {
	case *term.T:
		b := y.(*term.T)
		return tb.Eq(a, b)
	case Float:
		return tb.Bool(a.V == y.(Float).V)
	case Str:
		b := y.(Str)
		if len(a.B) != len(b.B) {
			return tb.False
		}
		r := tb.True
		for i := range a.B {
			r = tb.BAnd(r, tb.Eq(a.B[i].(*term.T), b.B[i].(*term.T)))
			if r.IsFalse() {
				return r
			}
		}
		return r
	case *Value:
		b, ok := y.(*Value)
		if !ok {
			panic(ex.unsupported("pointer comparison with symbolic pointer"))
		}
		return tb.Bool(a == b)
	case Iface:
		b := y.(Iface)
		if a.T == nil || b.T == nil {
			return tb.Bool(a.T == nil && b.T == nil)
		}
		if !types.Identical(a.T, b.T) {
			return tb.False
		}
		return ex.equals(a.V, b.V)
	case Struct:
		b := y.(Struct)
		r := tb.True
		for i := range a {
			r = tb.BAnd(r, ex.equals(a[i], b[i]))
		}
		return r
	case Array:
		b := y.(Array)
		r := tb.True
		for i := range a {
			r = tb.BAnd(r, ex.equals(a[i], b[i]))
		}
		return r
	case *Map:
		return tb.Bool(a == y.(*Map))
	case *Chan:
		return tb.Bool(a == y.(*Chan))
	case Slice:
		b := y.(Slice)
		// only comparison with nil is legal
		return tb.Bool(a.V == nil && b.V == nil)
	case nil:
		return tb.Bool(y == nil)
	case *ssa.Function, *Closure, *ssa.Builtin:
		return tb.Bool(y != nil && fmt.Sprintf("%p", x) == fmt.Sprintf("%p", y))
	case SymPtr:
		panic(ex.unsupported("comparison of symbolic pointer"))
	}
	if y == nil {
		return tb.False
	}
	panic(ex.unsupported(fmt.Sprintf("equals on %T", x)))
}

// ---------- maps ----------

func newMap(keyT types.Type) *Map {
	return &Map{index: map[interface{}]int{}, keyT: keyT}
}

func (m *Map) Len() int { return m.n }

// lookupIdx finds the entry index for key k (-1 if absent). Forks on symbolic keys.
func (ex *Exec) mapFind(m *Map, k Value) int {
	if m == nil {
		return -1
	}
	ck, conc := ckey(k)
	if conc && !m.hasSym {
		if i, ok := m.index[ck]; ok {
			return i
		}
		return -1
	}
	// association-list scan with equality decisions
	var live []int
	var conds []*term.T
	for i := range m.entries {
		e := &m.entries[i]
		if e.deleted {
			continue
		}
		c := ex.equals(e.k, k)
		if c.IsFalse() {
			continue
		}
		if c.IsTrue() {
			// definitely this entry (given earlier ones did not match): decided below
			live = append(live, i)
			conds = append(conds, c)
			break
		}
		live = append(live, i)
		conds = append(conds, c)
	}
	if len(live) == 0 {
		return -1
	}
	// alternatives: match live[j] and none of the earlier; or none.
	tb := ex.tb
	alts := make([]*term.T, 0, len(live)+1)
	none := tb.True
	for j := range live {
		alts = append(alts, tb.BAnd(none, conds[j]))
		none = tb.BAnd(none, tb.BNot(conds[j]))
	}
	alts = append(alts, none)
	ch := ex.decide("mapkey", alts)
	if ch == len(live) {
		return -1
	}
	return live[ch]
}

func (ex *Exec) mapGet(m *Map, k Value) (Value, bool) {
	i := ex.mapFind(m, k)
	if i < 0 {
		return nil, false
	}
	return m.entries[i].v, true
}

func (ex *Exec) mapSet(m *Map, k, v Value) {
	if m == nil {
		panic(ex.goPanicStr("assignment to entry in nil map"))
	}
	i := ex.mapFind(m, k)
	if i >= 0 {
		m.entries[i].v = v
		return
	}
	ck, conc := ckey(k)
	if conc {
		m.index[ck] = len(m.entries)
	} else {
		m.hasSym = true
	}
	m.entries = append(m.entries, mapEntry{k: k, v: v})
	m.n++
}

func (ex *Exec) mapDelete(m *Map, k Value) {
	if m == nil {
		return
	}
	i := ex.mapFind(m, k)
	if i < 0 {
		return
	}
	m.entries[i].deleted = true
	m.entries[i].v = nil
	if ck, conc := ckey(m.entries[i].k); conc {
		delete(m.index, ck)
	}
	m.n--
	if m.n == 0 {
		m.entries = m.entries[:0]
		m.hasSym = false
		m.index = map[interface{}]int{}
	}
}
