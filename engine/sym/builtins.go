package sym

import (
	"fmt"
	"go/types"
	"sync"

	"golang.org/x/tools/go/ssa"

	"verif/engine/term"
)

type syncMap = sync.Map

// Hooks are optional engine callbacks used by obligation sweeps.
type Hooks struct {
	MakeSize func(ex *Exec, ln, cp *term.T, in *ssa.MakeSlice)
}

// DataPtr is the result of unsafe.SliceData / unsafe.StringData.
type DataPtr struct {
	V []Value
}

type goBlocked struct{ what string }

func (ex *Exec) callBuiltin(caller *frame, b *ssa.Builtin, args []Value, site ssa.Instruction) Value {
	tb := ex.tb
	switch b.Name() {
	case "append":
		return ex.appendOp(args[0], args[1])
	case "copy":
		dst := args[0].(Slice)
		var src []Value
		switch s := args[1].(type) {
		case Slice:
			src = s.V
		case Str:
			src = s.B
		}
		n := len(src)
		if len(dst.V) < n {
			n = len(dst.V)
		}
		if ex.sched != nil {
			ex.touchSlice(src[:n], false)
			ex.touchSlice(dst.V[:n], true)
		}
		tmp := make([]Value, n)
		for i := 0; i < n; i++ {
			tmp[i] = copyVal(src[i])
		}
		copy(dst.V, tmp)
		return tb.Const(64, uint64(n))
	case "len":
		switch x := args[0].(type) {
		case Str:
			return tb.Const(64, uint64(len(x.B)))
		case Slice:
			return tb.Const(64, uint64(len(x.V)))
		case Array:
			return tb.Const(64, uint64(len(x)))
		case *Map:
			if x == nil {
				return tb.Const(64, 0)
			}
			return tb.Const(64, uint64(x.n))
		case *Chan:
			if x == nil {
				return tb.Const(64, 0)
			}
			return tb.Const(64, uint64(len(x.buf)))
		case *Value:
			if x == nil {
				// len of nil pointer to array: static length
				return tb.Const(64, 0)
			}
			return tb.Const(64, uint64(len((*x).(Array))))
		}
	case "cap":
		switch x := args[0].(type) {
		case Slice:
			return tb.Const(64, uint64(cap(x.V)))
		case Array:
			return tb.Const(64, uint64(len(x)))
		case *Chan:
			if x == nil {
				return tb.Const(64, 0)
			}
			return tb.Const(64, uint64(x.cap))
		case *Value:
			return tb.Const(64, uint64(len((*x).(Array))))
		}
	case "delete":
		ex.touchObj(args[0].(*Map), true)
		ex.mapDelete(args[0].(*Map), args[1])
		return nil
	case "close":
		ch := args[0].(*Chan)
		if ch == nil {
			panic(ex.goPanicStr("close of nil channel"))
		}
		if ch.closed {
			panic(ex.goPanicStr("close of closed channel"))
		}
		ch.closed = true
		return nil
	case "clear":
		switch x := args[0].(type) {
		case *Map:
			if x != nil {
				x.entries = nil
				x.index = map[interface{}]int{}
				x.n = 0
				x.hasSym = false
			}
		case Slice:
			if len(x.V) > 0 {
				var z Value
				if c, ok := site.(ssa.CallInstruction); ok {
					z = ex.zero(c.Common().Args[0].Type().Underlying().(*types.Slice).Elem())
				}
				for i := range x.V {
					x.V[i] = copyVal(z)
				}
			}
		}
		return nil
	case "recover":
		// caller is the deferred function's frame; its caller is the panicking frame
		if caller != nil && caller.caller != nil && caller.caller.panicking {
			p := caller.caller
			p.panicking = false
			v := p.panicVal.val
			p.panicVal = nil
			if v == nil {
				return Iface{}
			}
			return v
		}
		return Iface{}
	case "print", "println":
		return nil
	case "min", "max":
		r := args[0]
		var t types.Type
		if c, ok := site.(ssa.CallInstruction); ok {
			t = c.Common().Args[0].Type()
		}
		_, signed, _ := typeIntWidth(t)
		for _, a := range args[1:] {
			x, y := r.(*term.T), a.(*term.T)
			op := term.OUlt
			if signed {
				op = term.OSlt
			}
			var c *term.T
			if b.Name() == "min" {
				c = tb.Cmp(op, y, x)
			} else {
				c = tb.Cmp(op, x, y)
			}
			r = tb.Ite(c, y, x)
		}
		return r
	case "ssa:wrapnilchk":
		if isNilPtr(args[0]) {
			panic(ex.goPanicStr("value method called using nil pointer"))
		}
		return args[0]
	case "SliceData":
		s := args[0].(Slice)
		return DataPtr{V: s.V[:cap(s.V)]}
	case "StringData":
		return DataPtr{V: args[0].(Str).B}
	case "String":
		n := int(ex.concretize(args[1].(*term.T), "unsafe.String len"))
		switch p := args[0].(type) {
		case DataPtr:
			return Str{B: p.V[:n:n]}
		case *Value:
			if n == 0 {
				return Str{}
			}
			if n == 1 {
				return Str{B: []Value{*p}}
			}
		}
	case "Slice":
		n := int(ex.concretize(ex.to64(args[1], types.Typ[types.Int]), "unsafe.Slice len"))
		switch p := args[0].(type) {
		case DataPtr:
			return Slice{V: p.V[:n:n]}
		case *Value:
			if p == nil || n == 0 {
				return Slice{}
			}
		}
	}
	panic(ex.unsupported(fmt.Sprintf("builtin %s on %T", b.Name(), args)))
}

func (ex *Exec) appendOp(a0, a1 Value) Value {
	s := a0.(Slice)
	var add []Value
	switch x := a1.(type) {
	case Slice:
		add = x.V
	case Str:
		add = x.B
	}
	if len(add) == 0 {
		return s
	}
	n := len(s.V) + len(add)
	if ex.sched != nil {
		ex.touchSlice(add, false)
		if n <= cap(s.V) {
			ex.touchSlice(s.V[len(s.V):n], true)
		} else {
			ex.touchSlice(s.V, false)
		}
	}
	if n <= cap(s.V) {
		out := s.V[:n]
		tmp := make([]Value, len(add))
		for i := range add {
			tmp[i] = copyVal(add[i])
		}
		copy(out[len(s.V):], tmp)
		return Slice{V: out}
	}
	// grow like the runtime (without size-class rounding)
	newcap := cap(s.V)
	double := newcap + newcap
	if n > double {
		newcap = n
	} else if cap(s.V) < 256 {
		newcap = double
	} else {
		for newcap < n {
			newcap += (newcap + 3*256) / 4
		}
	}
	out := make([]Value, n, newcap)
	for i := range s.V {
		out[i] = copyVal(s.V[i])
	}
	for i := range add {
		out[len(s.V)+i] = copyVal(add[i])
	}
	ex.allocElems += int64(newcap)
	return Slice{V: out}
}

// ---------- channels / goroutines ----------

func (ex *Exec) chanSend(ch *Chan, v Value) {
	if ex.sched != nil {
		ex.schedPoint(func() bool { return ch != nil && (ch.closed || len(ch.buf) < ch.cap) }, "channel send")
		defer ex.releaseEdge(ch)
	}
	if ch == nil {
		panic(goBlocked{"send on nil channel"})
	}
	if ch.closed {
		panic(ex.goPanicStr("send on closed channel"))
	}
	if len(ch.buf) < ch.cap {
		ch.buf = append(ch.buf, copyVal(v))
		return
	}
	if ex.sched == nil && !ex.inGos {
		// the main line would block here: the service goroutines get to run (a blocked sender
		// waits for its receiver), then the send is retried once
		ex.runGoroutines()
		if len(ch.buf) < ch.cap {
			ch.buf = append(ch.buf, copyVal(v))
			return
		}
	}
	panic(goBlocked{"send on full channel"})
}

func (ex *Exec) chanRecv(ch *Chan, t types.Type, commaOk bool) (Value, bool) {
	if ex.sched != nil {
		ex.schedPoint(func() bool { return ch != nil && (ch.closed || len(ch.buf) > 0) }, "channel receive")
		ex.acquireEdge(ch)
	}
	if ch == nil {
		panic(goBlocked{"receive from nil channel"})
	}
	if len(ch.buf) > 0 {
		v := ch.buf[0]
		ch.buf = ch.buf[1:]
		return v, true
	}
	if ch.closed {
		var et types.Type
		if commaOk {
			et = t.(*types.Tuple).At(0).Type()
		} else {
			et = t
		}
		return ex.zero(et), false
	}
	panic(goBlocked{"receive from empty channel"})
}

func (ex *Exec) selectOp(fr *frame, in *ssa.Select) Value {
	tb := ex.tb
	if ex.sched != nil {
		ready := func() bool {
			if !in.Blocking {
				return true
			}
			for _, st := range in.States {
				ch, _ := ex.get(fr, st.Chan).(*Chan)
				if ch == nil {
					continue
				}
				if st.Dir == types.RecvOnly && (len(ch.buf) > 0 || ch.closed) {
					return true
				}
				if st.Dir != types.RecvOnly && (ch.closed || len(ch.buf) < ch.cap) {
					return true
				}
			}
			return false
		}
		ex.schedPoint(ready, "select")
	}
	res := make(Tuple, 2+0)
	res[0] = tb.Const(64, ^uint64(0))
	res[1] = tb.False
	var recvs []Value
	for _, st := range in.States {
		if st.Dir == types.RecvOnly {
			recvs = append(recvs, ex.zero(st.Chan.Type().Underlying().(*types.Chan).Elem()))
		}
	}
	chosen := -1
	ri := 0
	for i, st := range in.States {
		ch := ex.get(fr, st.Chan).(*Chan)
		if st.Dir == types.RecvOnly {
			if ch != nil && (len(ch.buf) > 0 || ch.closed) {
				if len(ch.buf) > 0 {
					recvs[ri] = ch.buf[0]
					ch.buf = ch.buf[1:]
					res[1] = tb.True
				}
				chosen = i
				break
			}
			ri++
		} else {
			if ch != nil && ch.closed {
				panic(ex.goPanicStr("send on closed channel"))
			}
			if ch != nil && len(ch.buf) < ch.cap {
				ch.buf = append(ch.buf, copyVal(ex.get(fr, st.Send)))
				chosen = i
				break
			}
		}
	}
	if chosen < 0 && in.Blocking {
		panic(goBlocked{"select with no ready case"})
	}
	res[0] = tb.Const(64, uint64(int64(chosen)))
	return append(res, recvs...)
}

func (ex *Exec) spawn(fv Value, args []Value, site ssa.Instruction) {
	ex.gos = append(ex.gos, func() {
		ex.callValue(nil, fv, args, site)
	})
	// a goroutine started by another goroutine (not by the main line, which starts the service
	// loops) is unordered with respect to its siblings
	ex.gosDyn = append(ex.gosDyn, ex.inGos)
}

// runGoroutines runs every spawned goroutine until it completes or blocks. A blocked
// goroutine is parked and, at the next call, restarted from its beginning: this is
// exact for the service loops in reach (`for { select { ... } }` blocks only at the loop
// head and carries no state across iterations) and is stated as an assumption.
func (ex *Exec) runGoroutines() {
	if ex.inGos {
		return
	}
	ex.inGos = true
	defer func() { ex.inGos = false }()
	ex.gos = append(ex.parked, ex.gos...)
	ex.gosDyn = append(make([]bool, len(ex.parked)), ex.gosDyn...)
	ex.parked = nil
	for len(ex.gos) > 0 {
		idx := 0
		if ex.gosDyn[0] {
			// the queued goroutines that were started during this drain may run in any order:
			// which one goes next is a fork of the path
			var dyn []int
			for i, d := range ex.gosDyn {
				if d {
					dyn = append(dyn, i)
				}
			}
			if len(dyn) > 1 {
				idx = dyn[ex.choice(len(dyn))]
			}
		}
		g := ex.gos[idx]
		ex.gos = append(ex.gos[:idx:idx], ex.gos[idx+1:]...)
		ex.gosDyn = append(ex.gosDyn[:idx:idx], ex.gosDyn[idx+1:]...)
		func() {
			saved := ex.cur
			sdepth := ex.depth
			defer func() {
				ex.cur = saved
				ex.depth = sdepth
				if r := recover(); r != nil {
					if _, ok := r.(goBlocked); ok {
						ex.parked = append(ex.parked, g)
						return
					}
					if gp, ok := r.(*goPanic); ok {
						// uncaught panic on a goroutine = process crash
						panic(pathAbort{"crash", "uncaught panic on goroutine: " + gp.msg})
					}
					panic(r)
				}
			}()
			ex.cur = nil
			g()
		}()
	}
}
