package sym

import (
	"fmt"
	"hash/fnv"
	"os"
	"runtime/debug"
	"sort"
	"sync"
	"time"

	"golang.org/x/tools/go/ssa"

	"verif/engine/smt"
)

type Limits struct {
	Workers     int
	PathBudget  int
	TimeBudget  time.Duration
	QueryMs     int
	MaxCex      int
	Samples     int
	Seed        int64
	Solver      string
	Verbose     bool
}

type Violation struct {
	Entry    string            `json:"entry"`
	AssertID string            `json:"assert_id"`
	Draws    map[string]uint64 `json:"draws"`
	Msg      string            `json:"msg,omitempty"`
	Decisions []int32          `json:"decisions,omitempty"`
}

type KnownHit struct {
	FindingID string
	Entry     string
	AssertID  string
	Draws     map[string]uint64
}

type Inconclusive struct {
	Kind  string `json:"kind"`
	Msg   string `json:"msg"`
	Count int    `json:"count"`
}

type EntryResult struct {
	Entry       string
	Paths       int            // completed (ok) paths
	Filtered    int            // paths ended by assume / constant-false continuation
	PanicPaths  int
	Decisions   int64
	Unforced    int64
	Steps       int64
	Obligations int
	Discharged  int
	Trivial     int
	Violations  []Violation
	KnownHits   map[string]KnownHit
	Inconcl     map[string]*Inconclusive
	Reached     map[string]int
	Samples     []*Sample
	Funcs       map[*ssa.Function]bool
	Uninit      map[string]bool
	Exhaustive  bool
	Solver      smt.Stats
	Wall        time.Duration
	MaxAlloc    int64
	AssertIDs   map[string]int
	SchedPoints int64 // thread harnesses: scheduling points passed, summed over paths
	ThreadPaths int   // paths that ran threads
	MaxPreempts int
	RaceChecks  int64
}

type workItem struct {
	prefix []int32
	cv     []uint64
	model  map[string]uint64
}

// Explore runs the entry function over all feasible paths (DFS by re-execution).
func Explore(sh *Shared, entry *ssa.Function, entryName string, lim Limits) *EntryResult {
	res := &EntryResult{Entry: entryName, KnownHits: map[string]KnownHit{}, Inconcl: map[string]*Inconclusive{}, Reached: map[string]int{},
		Funcs: map[*ssa.Function]bool{}, Uninit: map[string]bool{}, AssertIDs: map[string]int{}}
	t0 := time.Now()
	var mu sync.Mutex
	cond := sync.NewCond(&mu)
	frontier := []workItem{{prefix: nil}}
	active := 0
	stopped := false
	started := 0
	cexCount := map[string]int{}
	sampleSeen := 0
	realigns := 0
	_ = realigns

	worker := func(id int) {
		sol, err := smt.New(lim.Solver, lim.QueryMs)
		if err != nil {
			mu.Lock()
			res.Inconcl["solver"] = &Inconclusive{Kind: "engine", Msg: "cannot start solver: " + err.Error(), Count: 1}
			stopped = true
			cond.Broadcast()
			mu.Unlock()
			return
		}
		defer sol.Close()
		ex := NewExec(sh, sol)
		ex.NowBase = sh.NowBase
		npaths := 0
		for {
			mu.Lock()
			for len(frontier) == 0 && active > 0 && !stopped {
				cond.Wait()
			}
			if stopped || (len(frontier) == 0 && active == 0) {
				cond.Broadcast()
				mu.Unlock()
				break
			}
			if (lim.PathBudget > 0 && started >= lim.PathBudget) || (lim.TimeBudget > 0 && time.Since(t0) > lim.TimeBudget) {
				stopped = true
				k := "budget"
				res.Inconcl[k] = &Inconclusive{Kind: "budget", Msg: fmt.Sprintf("exploration budget reached (%d paths started, %s); %d prefixes left unexplored", started, time.Since(t0).Round(time.Second), len(frontier)), Count: len(frontier)}
				cond.Broadcast()
				mu.Unlock()
				break
			}
			it := frontier[len(frontier)-1]
			frontier = frontier[:len(frontier)-1]
			active++
			started++
			// sampling decision: first paths, then pseudo-random by seed
			h := fnv.New32a()
			fmt.Fprintf(h, "%d:%d", lim.Seed, started)
			wantSample := lim.Samples > 0 && (started <= 2 || h.Sum32()%17 == 0)
			mu.Unlock()

			pr := runPathSafe(ex, entry, entryName, it.prefix, it.cv, it.model, wantSample)
			npaths++
			if pr.Outcome == "realign" {
				// solver stack reuse failed its consistency check: redo the path on a clean solver
				sol.Reset()
				ex.prevValid = false
				realigns++
				pr = runPathSafe(ex, entry, entryName, it.prefix, it.cv, it.model, wantSample)
			}
			if npaths%5000 == 0 {
				// keep solver memory bounded
				sol.Reset()
				ex.prevValid = false
			}

			mu.Lock()
			active--
			for i, s := range pr.Siblings {
				var m map[string]uint64
				if i < len(pr.SibModels) {
					m = pr.SibModels[i]
				}
				var cv []uint64
				if i < len(pr.SibCVs) {
					cv = pr.SibCVs[i]
				}
				frontier = append(frontier, workItem{prefix: s, cv: cv, model: m})
			}
			res.Decisions += int64(len(pr.Decisions))
			res.Unforced += int64(pr.Unforced)
			res.Steps += pr.Steps
			if pr.SchedPoints > 0 {
				res.ThreadPaths++
				res.SchedPoints += int64(pr.SchedPoints)
				res.RaceChecks += pr.RaceChecks
				if pr.Preempts > res.MaxPreempts {
					res.MaxPreempts = pr.Preempts
				}
			}
			if pr.AllocElems > res.MaxAlloc {
				res.MaxAlloc = pr.AllocElems
			}
			for f := range pr.Funcs {
				res.Funcs[f] = true
			}
			for _, u := range pr.Uninit {
				res.Uninit[u] = true
			}
			switch pr.Outcome {
			case "ok":
				res.Paths++
			case "assume", "stop":
				res.Filtered++
			case "panic":
				res.PanicPaths++
			default:
				k := pr.Outcome + ":" + pr.Msg
				if len(k) > 300 {
					k = k[:300]
				}
				if ic := res.Inconcl[k]; ic != nil {
					ic.Count++
				} else {
					res.Inconcl[k] = &Inconclusive{Kind: pr.Outcome, Msg: pr.Msg, Count: 1}
				}
			}
			if pr.Outcome == "ok" || pr.Outcome == "panic" || pr.Outcome == "stop" {
				for _, l := range pr.Reached {
					res.Reached[l]++
				}
			}
			for _, a := range pr.Asserts {
				switch a.Status {
				case "trivial":
					res.Trivial++
					res.Obligations++
					res.Discharged++
					res.AssertIDs[a.ID]++
				case "discharged":
					res.Obligations++
					res.Discharged++
					res.AssertIDs[a.ID]++
				case "violated":
					res.Obligations++
					res.AssertIDs[a.ID]++
					if cexCount[a.ID] < lim.MaxCex {
						cexCount[a.ID]++
						res.Violations = append(res.Violations, Violation{Entry: entryName, AssertID: a.ID, Draws: a.Model, Msg: a.Msg, Decisions: pr.Decisions})
					}
				case "unknown":
					res.Obligations++
					res.AssertIDs[a.ID]++
					k := "unknown-assert:" + a.ID
					if ic := res.Inconcl[k]; ic != nil {
						ic.Count++
					} else {
						res.Inconcl[k] = &Inconclusive{Kind: "unknown", Msg: "solver gave no verdict for assertion " + a.ID + " " + a.Msg, Count: 1}
					}
				case "known":
					if _, ok := res.KnownHits[a.KnownID]; !ok {
						res.KnownHits[a.KnownID] = KnownHit{FindingID: a.KnownID, Entry: entryName, AssertID: a.ID, Draws: a.Model}
					}
				}
			}
			if pr.Sample != nil {
				sampleSeen++
				if len(res.Samples) < lim.Samples {
					res.Samples = append(res.Samples, pr.Sample)
				} else {
					h := fnv.New32a()
					fmt.Fprintf(h, "r%d:%d", lim.Seed, sampleSeen)
					j := int(h.Sum32() % uint32(sampleSeen))
					if j < lim.Samples && j >= 2 {
						res.Samples[j] = pr.Sample
					}
				}
			}
			if lim.Verbose && started%500 == 0 {
				fmt.Fprintf(os.Stderr, "[%s] paths started=%d ok=%d frontier=%d elapsed=%s\n", entryName, started, res.Paths, len(frontier), time.Since(t0).Round(time.Second))
			}
			cond.Broadcast()
			mu.Unlock()
		}
		mu.Lock()
		st := sol.Stats
		res.Solver.Queries += st.Queries
		res.Solver.Sat += st.Sat
		res.Solver.Unsat += st.Unsat
		res.Solver.Unknown += st.Unknown
		res.Solver.Errors += st.Errors
		res.Solver.Wall += st.Wall
		if st.MaxQuery > res.Solver.MaxQuery {
			res.Solver.MaxQuery = st.MaxQuery
		}
		mu.Unlock()
	}
	var wg sync.WaitGroup
	for i := 0; i < lim.Workers; i++ {
		wg.Add(1)
		go func(i int) {
			defer wg.Done()
			worker(i)
		}(i)
	}
	wg.Wait()
	res.Exhaustive = !stopped && len(frontier) == 0
	res.Wall = time.Since(t0)
	sort.Slice(res.Violations, func(i, j int) bool { return res.Violations[i].AssertID < res.Violations[j].AssertID })
	return res
}

func runPathSafe(ex *Exec, entry *ssa.Function, entryName string, prefix []int32, cv []uint64, model map[string]uint64, wantSample bool) (pr PathResult) {
	defer func() {
		if r := recover(); r != nil {
			pr = PathResult{Outcome: "engine", Msg: fmt.Sprintf("interpreter crash: %v%s\n%s", r, ex.where(), trimStack(debug.Stack())), Decisions: ex.decisions, Siblings: ex.siblings}
			ex.sol.Reset()
			ex.prevValid = false
		}
	}()
	return ex.RunPath(entry, entryName, prefix, cv, model, wantSample)
}

func trimStack(b []byte) string {
	s := string(b)
	if len(s) > 1500 {
		s = s[:1500]
	}
	return s
}
