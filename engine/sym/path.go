package sym

import (
	"fmt"
	"go/types"
	"os"
	"sort"
	"strings"

	"golang.org/x/tools/go/ssa"

	"verif/engine/smt"
	"verif/engine/term"
)

// PathResult is what one explored path produced.
type PathResult struct {
	Outcome   string // ok, assume, panic, unsupported, unwind, budget, blocked, deadlock, crash, engine, unknown
	Msg       string
	Decisions []int32
	Siblings  [][]int32
	SibModels []map[string]uint64
	SibCVs    [][]uint64
	Asserts   []assertRec
	Reached   []string
	Steps     int64
	Queries   int
	Unforced  int
	Sample    *Sample
	Funcs     map[*ssa.Function]bool
	Uninit    []string
	AllocElems int64
	SchedPoints int
	Preempts   int
	RaceChecks int64
	PanicMsg  string
}

// Sample is a concrete instance of a completed path (translator validation).
type Sample struct {
	Entry string            `json:"entry"`
	Draws map[string]uint64 `json:"draws"`
	Obs   []string          `json:"obs"`
	Outcome string          `json:"outcome"`
}

// KnownRegion is a compiled known-finding region for one assertion id.
type KnownRegion struct {
	FindingID string
	AssertID  string
	Expr      *RegionExpr
}

func NewExec(sh *Shared, sol *smt.Solver) *Exec {
	return &Exec{sh: sh, prog: sh.Prog, sol: sol, rtErrType: sh.RtErrType}
}

func (ex *Exec) resetPath(prefix []int32) {
	ex.tb = term.NewB()
	for i := 0; i < 256; i++ {
		ex.byteConst[i] = ex.tb.Const(8, uint64(i))
	}
	ex.cur = nil
	ex.globals = map[*ssa.Global]*Value{}
	ex.inited = map[*ssa.Package]bool{}
	ex.uninit = map[string]bool{}
	ex.pc = ex.pc[:0]
	ex.prefix = prefix
	ex.decisions = nil
	ex.forced = nil
	ex.siblings = nil
	ex.draws = nil
	ex.drawOcc = map[string]int{}
	ex.observes = nil
	ex.reached = map[string]bool{}
	ex.asserts = nil
	ex.steps = 0
	ex.depth = 0
	ex.mutexes = map[*Value]*mutexState{}
	ex.pools = map[*Value][]Value{}
	ex.onces = map[*Value]bool{}
	ex.gos = nil
	ex.gosDyn = nil
	ex.parked = nil
	ex.nowCount = 0
	ex.lastNow = nil
	ex.funcsSeen = map[*ssa.Function]bool{}
	ex.strCache = map[string]Str{}
	ex.constCache = map[*ssa.Const]Value{}
	ex.nQueries = 0
	ex.unknownFeas = 0
	ex.allocElems = 0
	ex.schedPoints, ex.preemptsUsed, ex.raceChecks = 0, 0, 0
	ex.sched, ex.noSched, ex.noTouch = nil, 0, 0
	ex.sidecar = map[string]interface{}{}
	ex.lastPanic = ""
	ex.inInit = 0
	ex.prov = map[*term.T]provRec{}
	ex.sigs = ex.sigs[:0]
	ex.sibModels = nil
	ex.sibCVs = nil
	ex.cvals = nil
	ex.model = nil
}

// RunPath executes the entry function along the given decision prefix.
func (ex *Exec) RunPath(entry *ssa.Function, entryName string, prefix []int32, prefixCV []uint64, startModel map[string]uint64, wantSample bool) (res PathResult) {
	ex.resetPath(prefix)
	ex.prefixCV = prefixCV
	ex.startModel = startModel
	ex.entryName = entryName
	// keep the solver scopes of the decisions this path shares with the previous one
	if os.Getenv("GOSYM_NOREUSE") != "" {
		ex.noReuse = true
	}
	c := 0
	if ex.prevValid && !ex.noReuse {
		for c < len(ex.prevDecs) && c < len(prefix) && ex.prevDecs[c] == prefix[c] {
			c++
		}
		if c >= len(ex.prevDecs) {
			c = len(ex.prevDecs) - 1
		}
	}
	if ex.prevValid && !ex.noReuse && c >= 0 && len(ex.prevDecs) > 0 && ex.sol.Depth() >= c+1 {
		ex.sol.PopTo(c + 1)
		ex.common = c
		ex.live = false
	} else {
		ex.sol.PopTo(0)
		ex.sol.Push()
		ex.common = 0
		ex.live = true
	}
	ex.prevValid = false
	ex.installInitSnapshot(entry)
	defer func() {
		if r := recover(); r != nil {
			switch a := r.(type) {
			case pathAbort:
				res.Outcome, res.Msg = a.kind, a.msg
			case *goPanic:
				res.Outcome, res.Msg = "panic", a.msg
				// an uncaught panic in the harness is a violation of the implicit no-panic obligation
				ex.recordUncaughtPanic(a)
			case goBlocked:
				res.Outcome, res.Msg = "blocked", a.what
			default:
				ex.prevValid = false
				panic(r)
			}
		} else {
			res.Outcome = "ok"
		}
		if res.Outcome == "ok" && wantSample && ex.live {
			res.Sample = ex.sample()
		}
		if res.Outcome == "realign" || res.Outcome == "engine" {
			ex.sol.PopTo(0)
		} else {
			ex.sol.PopTo(len(ex.decisions) + 1)
			ex.prevDecs = append(ex.prevDecs[:0], ex.decisions...)
			ex.prevSigs = append(ex.prevSigs[:0], ex.sigs...)
			ex.prevValid = ex.live || len(ex.decisions) <= ex.common
		}
		res.Decisions = ex.decisions
		res.Siblings = ex.siblings
		res.SibModels = ex.sibModels
		res.SibCVs = ex.sibCVs
		res.Asserts = ex.asserts
		for l := range ex.reached {
			res.Reached = append(res.Reached, l)
		}
		sort.Strings(res.Reached)
		res.Steps = ex.steps
		res.Queries = ex.nQueries
		for _, f := range ex.forced {
			if !f {
				res.Unforced++
			}
		}
		res.Funcs = ex.funcsSeen
		for p := range ex.uninit {
			res.Uninit = append(res.Uninit, p)
		}
		res.AllocElems = ex.allocElems
		res.SchedPoints, res.Preempts, res.RaceChecks = ex.schedPoints, ex.preemptsUsed, ex.raceChecks
	}()
	// the harness argument: *verifrt.T (an empty struct cell; all methods are intrinsics)
	var args []Value
	if len(entry.Params) == 1 {
		p := new(Value)
		*p = ex.zero(entry.Params[0].Type().(*types.Pointer).Elem())
		args = []Value{p}
	}
	ex.callFn(nil, entry, args)
	return
}

func (ex *Exec) recordUncaughtPanic(gp *goPanic) {
	ex.assertMsg(nil, ex.entryName+".uncaught-panic", gp.msg)
}

// assertMsg records an unconditional violation on the current path (if the path
// condition is satisfiable), with a model of the draws.
func (ex *Exec) assertMsg(_ *term.T, id string, msg string) {
	gp := &goPanic{msg: msg}
	rec := assertRec{ID: id, Status: "violated"}
	// known-finding regions apply to unconditional violations (uncaught panics, non-termination)
	// exactly as to assertions: excluded from the violation query, reported separately
	notKnown := ex.tb.True
	for _, kr := range ex.sh.Known {
		if kr.AssertID != id {
			continue
		}
		rt, ok := kr.Expr.Compile(ex)
		if !ok {
			continue
		}
		notKnown = ex.tb.BAnd(notKnown, ex.tb.BNot(rt))
		ex.sol.Push()
		ex.sol.Assert(rt)
		if ex.sol.Check() == smt.Sat {
			if m, err := ex.modelOfDraws(); err == nil {
				ex.asserts = append(ex.asserts, assertRec{ID: id, Status: "known", KnownID: kr.FindingID, Model: m, Msg: msg})
			}
		}
		ex.nQueries++
		ex.sol.Pop()
	}
	ex.sol.Push()
	ex.sol.Assert(notKnown)
	r := ex.sol.Check()
	if r == smt.Sat {
		if m, err := ex.modelOfDraws(); err == nil {
			rec.Model = m
		} else {
			rec.Status = "unknown"
		}
	} else if r == smt.Unsat {
		ex.sol.Pop()
		return
	} else {
		rec.Status = "unknown"
	}
	ex.sol.Pop()
	rec.Msg = gp.msg
	ex.asserts = append(ex.asserts, rec)
}

func (ex *Exec) sample() *Sample {
	r := ex.sol.Check()
	ex.nQueries++
	if r != smt.Sat {
		return nil
	}
	m, err := ex.modelOfDraws()
	if err != nil {
		return nil
	}
	s := &Sample{Entry: ex.entryName, Draws: m, Outcome: "ok"}
	if len(ex.observes) > 0 {
		ts := make([]*term.T, len(ex.observes))
		for i, o := range ex.observes {
			ts[i] = o.T
		}
		vals, err := ex.sol.Values(ts)
		if err != nil {
			return nil
		}
		for i, o := range ex.observes {
			s.Obs = append(s.Obs, fmt.Sprintf("%s=%d", o.Label, vals[i]))
		}
	}
	return s
}

// assert discharges one obligation on the current path.
func (ex *Exec) assert(c *term.T, id string) {
	tb := ex.tb
	if len(ex.decisions) < len(ex.prefix) {
		// this obligation was discharged (or reported) by the path that produced the prefix
		if c.IsFalse() {
			panic(pathAbort{"stop", "assertion constant-false"})
		}
		ex.addPC(c)
		return
	}
	if c.IsTrue() {
		ex.asserts = append(ex.asserts, assertRec{ID: id, Status: "trivial"})
		return
	}
	// known-finding regions applicable on this path
	notKnown := tb.True
	var regs []*term.T
	var regIDs []string
	for _, kr := range ex.sh.Known {
		if kr.AssertID != id {
			continue
		}
		rt, ok := kr.Expr.Compile(ex)
		if !ok {
			continue
		}
		regs = append(regs, rt)
		regIDs = append(regIDs, kr.FindingID)
		notKnown = tb.BAnd(notKnown, tb.BNot(rt))
	}
	nc := tb.BNot(c)
	if os.Getenv("GOSYM_ATRACE") != "" {
		str := term.Sprint(c)
		if len(str) > 1500 {
			str = str[:1500]
		}
		fmt.Fprintf(os.Stderr, "assert %s size=%d: %s\n", id, c.Size(), str)
	}
	rec := assertRec{ID: id}
	if os.Getenv("GOSYM_FRESHTEST") != "" {
		as := append(append([]*term.T{}, ex.pc...), nc, notKnown)
		for _, k := range []string{"z3", "z3-new", "cvc5"} {
			fr, _, d, err := smt.CheckFresh(k, 60000, as, nil)
			fmt.Fprintf(os.Stderr, "fresh %s %s: %s %s %v\n", id, k, fr, d, err)
		}
	}
	ex.sol.Push()
	ex.sol.Assert(nc)
	ex.sol.Assert(notKnown)
	r := ex.sol.Check()
	ex.nQueries++
	switch r {
	case smt.Unsat:
		rec.Status = "discharged"
	case smt.Sat:
		rec.Status = "violated"
		m, err := ex.modelOfDraws()
		if err != nil {
			rec.Status = "unknown"
			rec.Msg = err.Error()
		}
		rec.Model = m
		if err == nil && ex.steerVal != nil {
			if vals, verr := ex.sol.Values([]*term.T{ex.steerVal}); verr == nil {
				rec.Msg = fmt.Sprintf("alloc-elems=%d %s", vals[0], ex.steerNote)
			}
			if ex.steer != nil {
				ex.sol.Push()
				ex.sol.Assert(ex.steer)
				if ex.sol.Check() == smt.Sat {
					if m2, err2 := ex.modelOfDraws(); err2 == nil {
						if vals, verr := ex.sol.Values([]*term.T{ex.steerVal}); verr == nil {
							rec.Model = m2
							rec.Msg = fmt.Sprintf("alloc-elems=%d %s", vals[0], ex.steerNote)
						}
					}
				}
				ex.nQueries++
				ex.sol.Pop()
			}
		}
	default:
		rec.Status = "unknown"
		rec.Msg = ex.sol.LastError
	}
	ex.sol.Pop()
	if rec.Status == "unknown" {
		// second opinion: one-shot (non-incremental) solver run on the flattened query
		as := append(append([]*term.T{}, ex.pc...), nc, notKnown)
		var want []*term.T
		for _, d := range ex.draws {
			if d.T != nil {
				want = append(want, d.T)
			}
		}
		fr, vals, _, err := smt.CheckFresh(ex.sol.Kind, ex.sh.FreshMs, as, want)
		ex.nFresh++
		switch {
		case err != nil:
			rec.Msg = err.Error()
		case fr == smt.Unsat:
			rec.Status = "discharged"
		case fr == smt.Sat:
			rec.Status = "violated"
			m := map[string]uint64{}
			i := 0
			for _, d := range ex.draws {
				if d.T != nil {
					m[d.Name] = vals[i]
					i++
				} else {
					m[d.Name] = d.Val
				}
			}
			rec.Model = m
		}
	}
	ex.asserts = append(ex.asserts, rec)
	for i, rt := range regs {
		ex.sol.Push()
		ex.sol.Assert(nc)
		ex.sol.Assert(rt)
		kr := ex.sol.Check()
		ex.nQueries++
		if kr == smt.Sat {
			m, _ := ex.modelOfDraws()
			ex.asserts = append(ex.asserts, assertRec{ID: id, Status: "known", KnownID: regIDs[i], Model: m})
		}
		ex.sol.Pop()
	}
	if c.IsFalse() {
		panic(pathAbort{"stop", "assertion constant-false"})
	}
	ex.addPC(c)
}

// ---------- known-finding region expressions ----------

// RegionExpr is a tiny expression language over draw names:
//   ==  !=  <  <=  >  >=  &&  ||  !  +  -  &  |  ^  >>  <<  ( )  integer literals (decimal / 0x)
// Comparisons are unsigned. Draw names: [A-Za-z_][A-Za-z0-9_#]*
type RegionExpr struct {
	src  string
	root *rnode
}

type rnode struct {
	op   string
	a, b *rnode
	name string
	val  uint64
}

func ParseRegion(src string) (*RegionExpr, error) {
	p := &rparser{s: src}
	p.next()
	n, err := p.parseOr()
	if err != nil {
		return nil, err
	}
	if p.tok != "" {
		return nil, fmt.Errorf("region: trailing %q in %q", p.tok, src)
	}
	return &RegionExpr{src: src, root: n}, nil
}

type rparser struct {
	s   string
	pos int
	tok string
}

func (p *rparser) next() {
	for p.pos < len(p.s) && (p.s[p.pos] == ' ' || p.s[p.pos] == '\t' || p.s[p.pos] == '\n') {
		p.pos++
	}
	if p.pos >= len(p.s) {
		p.tok = ""
		return
	}
	for _, op := range []string{"==", "!=", "<=", ">=", "&&", "||", ">>", "<<"} {
		if strings.HasPrefix(p.s[p.pos:], op) {
			p.tok = op
			p.pos += 2
			return
		}
	}
	c := p.s[p.pos]
	if strings.ContainsRune("<>!+-&|^()", rune(c)) {
		p.tok = string(c)
		p.pos++
		return
	}
	j := p.pos
	for j < len(p.s) && (p.s[j] == '_' || p.s[j] == '#' || p.s[j] == ':' || p.s[j] == '.' || (p.s[j] >= '0' && p.s[j] <= '9') || (p.s[j] >= 'a' && p.s[j] <= 'z') || (p.s[j] >= 'A' && p.s[j] <= 'Z')) {
		j++
	}
	if j == p.pos {
		p.tok = string(c)
		p.pos++
		return
	}
	p.tok = p.s[p.pos:j]
	p.pos = j
}

func (p *rparser) parseOr() (*rnode, error) {
	a, err := p.parseAnd()
	if err != nil {
		return nil, err
	}
	for p.tok == "||" {
		p.next()
		b, err := p.parseAnd()
		if err != nil {
			return nil, err
		}
		a = &rnode{op: "||", a: a, b: b}
	}
	return a, nil
}

func (p *rparser) parseAnd() (*rnode, error) {
	a, err := p.parseCmp()
	if err != nil {
		return nil, err
	}
	for p.tok == "&&" {
		p.next()
		b, err := p.parseCmp()
		if err != nil {
			return nil, err
		}
		a = &rnode{op: "&&", a: a, b: b}
	}
	return a, nil
}

func (p *rparser) parseCmp() (*rnode, error) {
	a, err := p.parseArith()
	if err != nil {
		return nil, err
	}
	switch p.tok {
	case "==", "!=", "<", "<=", ">", ">=":
		op := p.tok
		p.next()
		b, err := p.parseArith()
		if err != nil {
			return nil, err
		}
		return &rnode{op: op, a: a, b: b}, nil
	}
	return a, nil
}

func (p *rparser) parseArith() (*rnode, error) {
	a, err := p.parseUnary()
	if err != nil {
		return nil, err
	}
	for {
		switch p.tok {
		case "+", "-", "&", "|", "^", ">>", "<<":
			op := p.tok
			p.next()
			b, err := p.parseUnary()
			if err != nil {
				return nil, err
			}
			a = &rnode{op: op, a: a, b: b}
		default:
			return a, nil
		}
	}
}

func (p *rparser) parseUnary() (*rnode, error) {
	switch {
	case p.tok == "!":
		p.next()
		a, err := p.parseUnary()
		if err != nil {
			return nil, err
		}
		return &rnode{op: "!", a: a}, nil
	case p.tok == "(":
		p.next()
		a, err := p.parseOr()
		if err != nil {
			return nil, err
		}
		if p.tok != ")" {
			return nil, fmt.Errorf("region: expected ) in %q", p.s)
		}
		p.next()
		return a, nil
	case p.tok == "":
		return nil, fmt.Errorf("region: unexpected end in %q", p.s)
	}
	t := p.tok
	p.next()
	if t[0] >= '0' && t[0] <= '9' {
		var v uint64
		var err error
		if strings.HasPrefix(t, "0x") {
			_, err = fmt.Sscanf(t, "0x%x", &v)
		} else {
			_, err = fmt.Sscanf(t, "%d", &v)
		}
		if err != nil {
			return nil, fmt.Errorf("region: bad number %q", t)
		}
		return &rnode{op: "num", val: v}, nil
	}
	return &rnode{op: "var", name: t}, nil
}

// Compile builds the region as a Bool term over the current path's draws.
// ok=false when the region mentions a draw that does not exist on this path.
func (r *RegionExpr) Compile(ex *Exec) (*term.T, bool) {
	vars := map[string]*term.T{}
	for _, d := range ex.draws {
		if d.T != nil {
			vars[d.Name] = ex.tb.ZExt(d.T, 64)
		} else {
			vars[d.Name] = ex.tb.Const(64, d.Val)
		}
	}
	ok := true
	var ev func(n *rnode) *term.T
	tb := ex.tb
	ev = func(n *rnode) *term.T {
		switch n.op {
		case "num":
			return tb.Const(64, n.val)
		case "var":
			if n.name == "entry."+ex.entryName {
				return tb.Const(64, 1)
			}
			if strings.HasPrefix(n.name, "entry.") {
				return tb.Const(64, 0)
			}
			v, found := vars[n.name]
			if !found {
				ok = false
				return tb.Const(64, 0)
			}
			return v
		case "!":
			return tb.BNot(asBool(tb, ev(n.a)))
		case "&&":
			return tb.BAnd(asBool(tb, ev(n.a)), asBool(tb, ev(n.b)))
		case "||":
			return tb.BOr(asBool(tb, ev(n.a)), asBool(tb, ev(n.b)))
		}
		a, b := ev(n.a), ev(n.b)
		switch n.op {
		case "==":
			return tb.Eq(a, b)
		case "!=":
			return tb.BNot(tb.Eq(a, b))
		case "<":
			return tb.Cmp(term.OUlt, a, b)
		case "<=":
			return tb.Cmp(term.OUle, a, b)
		case ">":
			return tb.Cmp(term.OUlt, b, a)
		case ">=":
			return tb.Cmp(term.OUle, b, a)
		case "+":
			return tb.Bin(term.OAdd, a, b)
		case "-":
			return tb.Bin(term.OSub, a, b)
		case "&":
			return tb.Bin(term.OAnd, a, b)
		case "|":
			return tb.Bin(term.OOr, a, b)
		case "^":
			return tb.Bin(term.OXor, a, b)
		case ">>":
			return tb.Bin(term.OLShr, a, b)
		case "<<":
			return tb.Bin(term.OShl, a, b)
		}
		panic("region: op " + n.op)
	}
	t := asBool(tb, ev(r.root))
	return t, ok
}

func asBool(tb *term.B, t *term.T) *term.T {
	if t.W == 0 {
		return t
	}
	return tb.BNot(tb.Eq(t, tb.Const(int(t.W), 0)))
}

// EvalRegion evaluates the region on concrete draws (used to classify replayed witnesses).
func (r *RegionExpr) Eval(entry string, draws map[string]uint64) (bool, bool) {
	ok := true
	var ev func(n *rnode) uint64
	b2u := func(b bool) uint64 {
		if b {
			return 1
		}
		return 0
	}
	ev = func(n *rnode) uint64 {
		switch n.op {
		case "num":
			return n.val
		case "var":
			if strings.HasPrefix(n.name, "entry.") {
				return b2u(n.name == "entry."+entry)
			}
			v, found := draws[n.name]
			if !found {
				ok = false
			}
			return v
		case "!":
			return b2u(ev(n.a) == 0)
		case "&&":
			return b2u(ev(n.a) != 0 && ev(n.b) != 0)
		case "||":
			return b2u(ev(n.a) != 0 || ev(n.b) != 0)
		}
		a, b := ev(n.a), ev(n.b)
		switch n.op {
		case "==":
			return b2u(a == b)
		case "!=":
			return b2u(a != b)
		case "<":
			return b2u(a < b)
		case "<=":
			return b2u(a <= b)
		case ">":
			return b2u(a > b)
		case ">=":
			return b2u(a >= b)
		case "+":
			return a + b
		case "-":
			return a - b
		case "&":
			return a & b
		case "|":
			return a | b
		case "^":
			return a ^ b
		case ">>":
			if b >= 64 {
				return 0
			}
			return a >> b
		case "<<":
			if b >= 64 {
				return 0
			}
			return a << b
		}
		return 0
	}
	v := ev(r.root)
	return v != 0, ok
}

// installInitSnapshot starts the path from a deep copy of the post-initialisation
// state (package initialisers run once per worker); on any difficulty it falls back
// to lazy per-path initialisation.
func (ex *Exec) installInitSnapshot(entry *ssa.Function) {
	if ex.snapOff || entry.Pkg == nil || os.Getenv("GOSYM_NOSNAP") != "" {
		return
	}
	if ex.master == nil {
		ok := func() (ok bool) {
			defer func() {
				if r := recover(); r != nil {
					ok = false
					ex.snapWhy = fmt.Sprint(r)
				}
			}()
			ex.ensureInit(entry.Pkg)
			return true
		}()
		held := 0
		for _, m := range ex.mutexes {
			held += m.w + m.r
		}
		if !ok || len(ex.sidecar) != 0 || held != 0 || len(ex.gos) != 0 || len(ex.pc) != 0 {
			// initialisation is not a pure concrete prefix: do not snapshot
			ex.snapOff = true
			if os.Getenv("GOSYM_INITTRACE") != "" {
				fmt.Fprintf(os.Stderr, "snapshot off: ok=%v why=%s sidecar=%d mutexes=%d gos=%d pc=%d\n", ok, ex.snapWhy, len(ex.sidecar), len(ex.mutexes), len(ex.gos), len(ex.pc))
			}
			ex.resetPath(ex.prefix)
			return
		}
		ex.mutexes = map[*Value]*mutexState{}
		ex.master = &initSnapshot{globals: ex.globals, inited: ex.inited, uninit: ex.uninit, onces: ex.onces, pools: ex.pools, steps: ex.steps}
		ex.globals, ex.inited, ex.uninit, ex.onces, ex.pools = map[*ssa.Global]*Value{}, map[*ssa.Package]bool{}, map[string]bool{}, map[*Value]bool{}, map[*Value][]Value{}
		ex.steps = 0
	}
	cl, ok, why := cloneSnapshot(ex.master, ex.tb)
	if !ok {
		ex.snapOff = true
		ex.snapWhy = why
		ex.master = nil
		if os.Getenv("GOSYM_INITTRACE") != "" {
			fmt.Fprintf(os.Stderr, "snapshot clone failed: %s\n", why)
		}
		return
	}
	ex.globals, ex.inited, ex.uninit, ex.onces, ex.pools = cl.globals, cl.inited, cl.uninit, cl.onces, cl.pools
}
