// gosym: bounded symbolic execution of Go SSA (real emitter code) with an SMT
// solver deciding every branch and assertion. See /verif/DESIGN.md.
package main

import (
	"bytes"
	"crypto/sha256"
	"encoding/hex"
	"encoding/json"
	"flag"
	"fmt"
	"go/types"
	"os"
	"os/exec"
	"path/filepath"
	"runtime"
	"runtime/pprof"
	"sort"
	"strings"
	"time"

	"golang.org/x/tools/go/packages"
	"golang.org/x/tools/go/ssa"
	"golang.org/x/tools/go/ssa/ssautil"

	"verif/engine/sym"
)

type TierSpec struct {
	Bounds      map[string]int `json:"bounds"`
	LoopBound   int            `json:"loop_bound"`
	InstrBudget int64          `json:"instr_budget"`
	PathBudget  int            `json:"path_budget"`
	TimeBudgetS int            `json:"time_budget_s"`
	QueryMs     int            `json:"query_ms"`
	FreshMs     int            `json:"fresh_ms"`
	AllocBound  int64          `json:"alloc_bound"`
	NowWindowS  int64          `json:"now_window_s"`
	Entries     []string       `json:"entries"` // optional subset/superset of entries for this tier
}

type EntrySpec struct {
	pkg   int
	Func  string   `json:"func"`
	Reach []string `json:"reach"`
	What  string   `json:"what"`
	Subst map[string]string `json:"subst"`
	Noop  []string `json:"noop"`
	NotAtomic []string `json:"not_atomic"` // functions of the spec's atomic_funcs that this entry runs with scheduling points
}

type PkgSpec struct {
	Package string      `json:"package"`
	PkgDir  string      `json:"pkg_dir"`
	Files   []string    `json:"files"`
	Entries []EntrySpec `json:"entries"`
}

type Spec struct {
	Packages    []PkgSpec           `json:"packages"`
	Property    string              `json:"property"`
	Package     string              `json:"package"`
	PkgDir      string              `json:"pkg_dir"`
	Files       []string            `json:"files"`
	Extra       []string            `json:"extra_packages"`
	Entries     []EntrySpec         `json:"entries"`
	InitAllow   map[string]bool     `json:"init_allow"`
	Noop        []string            `json:"noop"`
	AtomicFuncs []string            `json:"atomic_funcs"`
	Instrument  []string            `json:"instrument"` // thread harnesses: packages given replay scheduling points
	Subst       map[string]string   `json:"subst"`
	Tiers       map[string]TierSpec `json:"tiers"`
	Functions   []string            `json:"functions"`
	Assumptions []string            `json:"assumptions"`
	Stubs       []string            `json:"stubs"`
	Outside     []string            `json:"outside"`
	Rule        string              `json:"rule"`
}

type KnownFinding struct {
	ID       string            `json:"id"`
	Property string            `json:"property"`
	Status   string            `json:"status"` // open | fixed
	AssertID string            `json:"assert_id"`
	Region   string            `json:"region"`
	Entry    string            `json:"entry"`
	Witness  map[string]uint64 `json:"witness"`
	What     string            `json:"what"`
	Commit   string            `json:"commit,omitempty"`
}

const repoMod = "github.com/emitter-io/emitter"
const rtPkg = repoMod + "/internal/verifrt"

var (
	flagSpec    = flag.String("spec", "", "harness spec.json")
	flagTier    = flag.String("tier", "quick", "quick|thorough")
	flagSeed    = flag.Int64("seed", 1, "seed")
	flagRepo    = flag.String("repo", "/repo", "repository root")
	flagVerif   = flag.String("verif", "/verif", "verif root")
	flagWorkers = flag.Int("workers", 0, "workers (default NumCPU)")
	flagVerbose = flag.Bool("v", false, "verbose")
	flagNoNative = flag.Bool("no-native", false, "skip native replays (debug only: nothing is reported as violation)")
	flagEntry   = flag.String("entry", "", "run only this entry (debug)")
	flagReplay  = flag.String("replay", "", "replay a draw file natively and report")
	flagQms     = flag.Int("qms", 0, "override per-query timeout (ms)")
	flagProf    = flag.String("cpuprofile", "", "write cpu profile")
	flagSolver  = flag.String("solver", "z3-new", "z3|z3-new|cvc5")
)

// panicKind classifies a run-time panic message; a native panic confirms an interpreted one
// only when both are of the same kind (a harness-side failure such as a missing draw making
// a helper give up must not pass for the panic the executor predicted).
func panicKind(m string) string {
	for _, k := range []string{"nil pointer", "nil map", "index out of range", "slice bounds out of range", "makeslice", "divide by zero", "closed channel", "nil channel", "interface conversion", "negative shift", "out of memory", "reflect:"} {
		if strings.Contains(m, k) {
			if k == "slice bounds out of range" {
				return "index out of range"
			}
			return k
		}
	}
	return "other"
}

func samePanicKind(symbolic, native string) bool {
	a, b := panicKind(symbolic), panicKind(native)
	if a == "other" { // an explicit panic(value): any native panic of the run counts
		return true
	}
	return a == b
}

var noScheduleReplay = map[string]bool{}

// devRun: not the registered check (which runs every entry against /repo)
func devRun() bool { return *flagRepo != "/repo" || *flagEntry != "" }

func evidenceDir() string {
	if devRun() {
		return filepath.Join(*flagVerif, "out", "evidence-dev")
	}
	return filepath.Join(*flagVerif, "evidence")
}

func main() {
	flag.Parse()
	goEnv()
	if *flagProf != "" {
		f, _ := os.Create(*flagProf)
		pprof.StartCPUProfile(f)
		defer pprof.StopCPUProfile()
	}
	if *flagSpec == "" {
		fmt.Fprintln(os.Stderr, "usage: gosym -spec harness/<id>/spec.json [-tier quick|thorough]")
		os.Exit(2)
	}
	rc := run()
	if *flagProf != "" {
		pprof.StopCPUProfile()
	}
	os.Exit(rc)
}

func goEnv() []string {
	env := os.Environ()
	modcache := os.Getenv("GOMODCACHE")
	if modcache == "" {
		modcache = "/root/go/pkg/mod"
	}
	tc := filepath.Join(modcache, "golang.org/toolchain@v0.0.1-go1.24.0.linux-amd64/bin")
	out := []string{}
	for _, e := range env {
		if strings.HasPrefix(e, "PATH=") || strings.HasPrefix(e, "GOFLAGS=") || strings.HasPrefix(e, "GOTOOLCHAIN=") || strings.HasPrefix(e, "GOPROXY=") || strings.HasPrefix(e, "GOSUMDB=") || strings.HasPrefix(e, "GONOSUMDB=") {
			continue
		}
		out = append(out, e)
	}
	if !strings.HasPrefix(os.Getenv("PATH"), tc+":") {
		os.Setenv("PATH", tc+":"+os.Getenv("PATH"))
	}
	out = append(out, "PATH="+os.Getenv("PATH"), "GOFLAGS=-mod=mod", "GOTOOLCHAIN=local", "GOPROXY=off", "GOMODCACHE="+modcache)
	return out
}

func run() int {
	t0 := time.Now()
	raw, err := os.ReadFile(*flagSpec)
	if err != nil {
		fatal(err)
	}
	var spec Spec
	if err := json.Unmarshal(raw, &spec); err != nil {
		fatal(fmt.Errorf("%s: %v", *flagSpec, err))
	}
	tier, ok := spec.Tiers[*flagTier]
	if !ok {
		fatal(fmt.Errorf("spec has no tier %q", *flagTier))
	}
	hdir := filepath.Dir(*flagSpec)
	hdir, _ = filepath.Abs(hdir)
	outDir := filepath.Join(*flagVerif, "out", "replay", spec.Property)
	if devRun() {
		// debug runs (another tree, a single entry) keep away from the registered check's files
		outDir = filepath.Join(*flagVerif, "out", "replay-dev", spec.Property)
	}
	if *flagReplay != "" {
		// a replay must not delete the draw files of the run that reported them
		outDir = filepath.Join(*flagVerif, "out", "replay-run", spec.Property)
	}
	os.RemoveAll(outDir)
	os.MkdirAll(outDir, 0o755)

	// ----- overlay: harness files + runtime package + generated test files -----
	if len(spec.Packages) == 0 {
		spec.Packages = []PkgSpec{{Package: spec.Package, PkgDir: spec.PkgDir, Files: spec.Files, Entries: spec.Entries}}
	}
	repl := map[string]string{}
	testRepl := map[string]string{}
	rtSrc := filepath.Join(*flagVerif, "rt", "verifrt", "verifrt.go")
	repl[filepath.Join(*flagRepo, "internal", "verifrt", "verifrt.go")] = rtSrc
	var entries []EntrySpec
	for pi, ps := range spec.Packages {
		pkgDirAbs := filepath.Join(*flagRepo, ps.PkgDir)
		if filepath.IsAbs(ps.PkgDir) {
			pkgDirAbs = ps.PkgDir // a dependency in the module cache (harness-only constructor file)
		} else if strings.HasPrefix(ps.PkgDir, "$GOMODCACHE/") {
			mc := os.Getenv("GOMODCACHE")
			if mc == "" {
				mc = "/root/go/pkg/mod"
			}
			pkgDirAbs = filepath.Join(mc, strings.TrimPrefix(ps.PkgDir, "$GOMODCACHE/"))
		}
		for fi, f := range ps.Files {
			repl[filepath.Join(pkgDirAbs, fmt.Sprintf("zz_verif_%s_%d_%s", strings.ToLower(spec.Property), fi, filepath.Base(f)))] = filepath.Join(hdir, f)
		}
		pkgName := ""
		b, err := os.ReadFile(filepath.Join(hdir, ps.Files[0]))
		if err != nil {
			fatal(err)
		}
		for _, l := range strings.Split(string(b), "\n") {
			if strings.HasPrefix(l, "package ") {
				pkgName = strings.TrimSpace(strings.TrimPrefix(l, "package "))
				break
			}
		}
		var tsb strings.Builder
		fmt.Fprintf(&tsb, "package %s\n\nimport (\n\t\"testing\"\n\t\"%s\"\n)\n\n", pkgName, rtPkg)
		for _, e := range ps.Entries {
			fmt.Fprintf(&tsb, "func TestVerifEntry_%s(t *testing.T) { verifrt.RunNative(t, %q, %s) }\n", e.Func, e.Func, e.Func)
		}
		if len(ps.Entries) > 0 {
			testFile := filepath.Join(outDir, fmt.Sprintf("zz_verif_%d_test.go", pi))
			os.WriteFile(testFile, []byte(tsb.String()), 0o644)
			testRepl[filepath.Join(pkgDirAbs, "zz_verif_"+strings.ToLower(spec.Property)+"_test.go")] = testFile
		}
		for _, e := range ps.Entries {
			e.pkg = pi
			if *flagEntry != "" && e.Func != *flagEntry {
				continue
			}
			if len(tier.Entries) > 0 {
				found := false
				for _, n := range tier.Entries {
					if n == e.Func {
						found = true
					}
				}
				if !found {
					continue
				}
			}
			entries = append(entries, e)
		}
	}
	for k, v := range repl {
		testRepl[k] = v
	}
	ovJSON, _ := json.MarshalIndent(map[string]interface{}{"Replace": testRepl}, "", " ")
	ovFile := filepath.Join(outDir, "overlay.json")
	os.WriteFile(ovFile, ovJSON, 0o644)

	if *flagReplay != "" && len(spec.Instrument) == 0 {
		return replayOnly(&spec, ovFile, ovFile, *flagReplay)
	}

	// ----- load + build SSA from the current working tree -----
	overlay := map[string][]byte{}
	for k, v := range repl {
		b, err := os.ReadFile(v)
		if err != nil {
			fatal(err)
		}
		overlay[k] = b
	}
	cfg := &packages.Config{
		Mode:    packages.LoadAllSyntax,
		Dir:     *flagRepo,
		Env:     goEnv(),
		Overlay: overlay,
	}
	patterns := append([]string{rtPkg}, spec.Extra...)
	for _, ps := range spec.Packages {
		patterns = append(patterns, ps.Package)
	}
	tl := time.Now()
	pkgs, err := packages.Load(cfg, patterns...)
	if err != nil {
		fatal(fmt.Errorf("load: %v", err))
	}
	nerr := 0
	packages.Visit(pkgs, nil, func(p *packages.Package) {
		for _, e := range p.Errors {
			if nerr < 20 {
				fmt.Fprintf(os.Stderr, "load error: %s: %v\n", p.PkgPath, e)
			}
			nerr++
		}
	})
	if nerr > 0 {
		// The working tree (or harness) does not type-check: the check cannot run.
		fmt.Printf("INCONCLUSIVE property=%s reason=load-errors count=%d\n", spec.Property, nerr)
		writeEvidenceFailure(&spec, "load errors", t0)
		return 2
	}
	prog, _ := ssautil.AllPackages(pkgs, ssa.InstantiateGenerics)
	prog.Build()
	loadDur := time.Since(tl)

	// ----- thread harnesses: replay instrumentation of the current source -----
	ovSched := ovFile
	var ist instrStats
	if len(spec.Instrument) > 0 {
		want := map[string]bool{}
		for _, ip := range spec.Instrument {
			want[ip] = true
		}
		instrDir := filepath.Join(outDir, "instr")
		os.MkdirAll(instrDir, 0o755)
		replI := map[string]string{}
		for k, v := range testRepl {
			replI[k] = v
		}
		var ierr error
		atomicSet := map[string]bool{}
		for _, n := range spec.AtomicFuncs {
			atomicSet[n] = true
		}
		packages.Visit(pkgs, nil, func(p *packages.Package) {
			if want[p.PkgPath] && ierr == nil {
				ierr = instrumentPackage(p, instrDir, replI, &ist, atomicSet)
			}
		})
		if ierr != nil {
			fmt.Printf("INCONCLUSIVE property=%s reason=instrumentation-failed %v\n", spec.Property, ierr)
			writeEvidenceFailure(&spec, "instrumentation failed", t0)
			return 2
		}
		j, _ := json.MarshalIndent(map[string]interface{}{"Replace": replI}, "", " ")
		ovSched = filepath.Join(outDir, "overlay_sched.json")
		os.WriteFile(ovSched, j, 0o644)
		if *flagReplay != "" {
			return replayOnly(&spec, ovSched, ovFile, *flagReplay)
		}
	}

	targets := make([]*ssa.Package, len(spec.Packages))
	var rt *ssa.Package
	for _, p := range prog.AllPackages() {
		for i, ps := range spec.Packages {
			if p.Pkg.Path() == ps.Package {
				targets[i] = p
			}
		}
		if p.Pkg.Path() == rtPkg {
			rt = p
		}
	}
	for i, t := range targets {
		if t == nil {
			fatal(fmt.Errorf("package %s not found after load", spec.Packages[i].Package))
		}
	}
	if rt == nil {
		fatal(fmt.Errorf("verifrt not found after load"))
	}

	sh := &sym.Shared{
		Prog:        prog,
		InitAllow:   defaultInitAllow(),
		Noop:        map[string]bool{},
		Subst:       map[string]*ssa.Function{},
		LoopBound:   tier.LoopBound,
		InstrBudget: tier.InstrBudget,
		Bounds:      tier.Bounds,
		NowBase:     time.Now().Unix(),
	}
	if tier.TimeBudgetS > 0 {
		sh.Deadline = t0.Add(time.Duration(tier.TimeBudgetS) * time.Second * time.Duration(len(entries)))
	}
	sh.AllocBound = tier.AllocBound
	sh.NowWindow = tier.NowWindowS
	sh.Property = spec.Property
	sh.FreshMs = tier.FreshMs
	if sh.FreshMs == 0 {
		sh.FreshMs = 60000
	}
	if sh.LoopBound == 0 {
		sh.LoopBound = 256
	}
	if sh.InstrBudget == 0 {
		sh.InstrBudget = 20_000_000
	}
	for k, v := range spec.InitAllow {
		sh.InitAllow[k] = v
	}
	for _, n := range defaultNoop {
		sh.Noop[n] = true
	}
	if len(spec.Instrument) > 0 {
		sh.SchedPkgs = map[string]bool{}
		for _, ip := range spec.Instrument {
			sh.SchedPkgs[ip] = true
		}
	}
	sh.AtomicFns = map[string]bool{}
	for _, n := range spec.AtomicFuncs {
		sh.AtomicFns[n] = true
	}
	for _, n := range spec.Noop {
		sh.Noop[n] = true
	}
	if t := rt.Type("RuntimeError"); t != nil {
		sh.RtErrType = t.Type()
	}
	for from, to := range spec.Subst {
		f := findFunc(prog, to)
		if f == nil {
			fatal(fmt.Errorf("subst target %s not found", to))
		}
		sh.Subst[from] = f
	}
	// known findings
	var known []KnownFinding
	if b, err := os.ReadFile(filepath.Join(*flagVerif, "known_findings.json")); err == nil {
		var all []KnownFinding
		if err := json.Unmarshal(b, &all); err != nil {
			fatal(fmt.Errorf("known_findings.json: %v", err))
		}
		for _, k := range all {
			if k.Property == spec.Property && k.Status == "open" {
				known = append(known, k)
				re, err := sym.ParseRegion(k.Region)
				if err != nil {
					fatal(err)
				}
				sh.Known = append(sh.Known, sym.KnownRegion{FindingID: k.ID, AssertID: k.AssertID, Expr: re})
			}
		}
	}

	workers := *flagWorkers
	if workers <= 0 {
		workers = runtime.NumCPU()
	}
	lim := sym.Limits{Workers: workers, PathBudget: tier.PathBudget, QueryMs: tier.QueryMs, MaxCex: 3, Samples: 4, Seed: *flagSeed, Solver: *flagSolver, Verbose: *flagVerbose}
	if lim.QueryMs == 0 {
		lim.QueryMs = 10000
	}
	if *flagQms > 0 {
		lim.QueryMs = *flagQms
	}
	if tier.TimeBudgetS > 0 {
		lim.TimeBudget = time.Duration(tier.TimeBudgetS) * time.Second
	}

	var results []*sym.EntryResult
	for _, e := range entries {
		fn := targets[e.pkg].Func(e.Func)
		if fn == nil {
			fatal(fmt.Errorf("entry %s not found in %s", e.Func, spec.Packages[e.pkg].Package))
		}
		esh := sh
		if len(e.Subst) > 0 || len(e.Noop) > 0 || len(e.NotAtomic) > 0 {
			cp := *sh
			if len(e.NotAtomic) > 0 {
				cp.AtomicFns = map[string]bool{}
				for k, v := range sh.AtomicFns {
					cp.AtomicFns[k] = v
				}
				for _, n := range e.NotAtomic {
					delete(cp.AtomicFns, n)
				}
			}
			cp.Subst = map[string]*ssa.Function{}
			for k, v := range sh.Subst {
				cp.Subst[k] = v
			}
			for from, to := range e.Subst {
				if to == "" { // this entry runs the real function
					delete(cp.Subst, from)
					continue
				}
				f := findFunc(prog, to)
				if f == nil {
					fatal(fmt.Errorf("subst target %s not found", to))
				}
				cp.Subst[from] = f
			}
			cp.Noop = map[string]bool{}
			for k, v := range sh.Noop {
				cp.Noop[k] = v
			}
			for _, n := range e.Noop {
				cp.Noop[n] = true
			}
			esh = cp.Clone()
		}
		if len(e.NotAtomic) > 0 {
			// the native instrumentation treats the spec's atomic functions as indivisible, so the
			// schedules of this entry cannot be replayed through the baton: its samples are not
			// validated natively and only its race reports (confirmed by go test -race) can alarm
			noScheduleReplay[e.Func] = true
		}
		r := sym.Explore(esh, fn, e.Func, lim)
		results = append(results, r)
		if *flagVerbose {
			fmt.Fprintf(os.Stderr, "[%s] paths=%d filtered=%d panics=%d oblig=%d/%d viol=%d inconcl=%d queries=%d wall=%s\n", e.Func, r.Paths, r.Filtered, r.PanicPaths, r.Discharged, r.Obligations, len(r.Violations), len(r.Inconcl), r.Solver.Queries, r.Wall.Round(time.Millisecond))
		}
	}

	// ----- native replays: violations, known-finding witnesses, translator-validation samples -----
	type drawFile struct {
		Entry    string            `json:"entry"`
		Kind     string            `json:"kind"`
		AssertID string            `json:"assert_id,omitempty"`
		Finding  string            `json:"finding,omitempty"`
		Draws    map[string]uint64 `json:"draws"`
		Obs      []string          `json:"obs,omitempty"`
		Msg      string            `json:"msg,omitempty"`
	}
	var files []string
	var dfs []drawFile
	addDF := func(df drawFile) {
		if df.Draws == nil {
			df.Draws = map[string]uint64{}
		}
		for k, v := range tier.Bounds {
			df.Draws["bound:"+k] = uint64(int64(v))
		}
		name := filepath.Join(outDir, fmt.Sprintf("%s_%s_%d.json", df.Kind, df.Entry, len(files)))
		b, _ := json.MarshalIndent(df, "", " ")
		os.WriteFile(name, b, 0o644)
		files = append(files, name)
		dfs = append(dfs, df)
	}
	for _, r := range results {
		for _, v := range r.Violations {
			addDF(drawFile{Entry: v.Entry, Kind: "cex", AssertID: v.AssertID, Draws: v.Draws, Msg: v.Msg})
		}
		for _, s := range r.Samples {
			if noScheduleReplay[s.Entry] {
				continue // its schedules run through code that has no native scheduling points
			}
			addDF(drawFile{Entry: s.Entry, Kind: "sample", Draws: s.Draws, Obs: s.Obs})
		}
	}
	knownHit := map[string]bool{}
	for _, r := range results {
		for id := range r.KnownHits {
			knownHit[id] = true
		}
	}
	for _, k := range known {
		if knownHit[k.ID] {
			w := map[string]uint64{}
			for a, b := range k.Witness {
				w[a] = b
			}
			addDF(drawFile{Entry: k.Entry, Kind: "known", AssertID: k.AssertID, Finding: k.ID, Draws: w})
		}
	}
	nativeOK := true
	raceConfirmed := map[int]bool{}
	var nativeOut string
	var nativeDur time.Duration
	if len(files) > 0 && !*flagNoNative {
		tn := time.Now()
		nativeOut, err = runNative(&spec, ovSched, files, nil, nil)
		if err != nil {
			nativeOK = false
		}
		// data races are confirmed by the Go race detector on free-running threads
		nrace := 0
		for i, df := range dfs {
			if df.Kind == "cex" && strings.HasSuffix(df.AssertID, ".data-race-free") && nrace < 2 {
				nrace++
				if ok, _ := raceReplay(&spec, ovFile, files[i]); ok {
					raceConfirmed[i] = true
				}
			}
		}
		nativeDur = time.Since(tn)
	}
	type nativeRes struct {
		Failed  []string `json:"failed"`
		Skipped bool     `json:"skipped"`
		Panic   string   `json:"panic"`
		Obs     []string `json:"obs"`
		Missing []string `json:"missing"`
		Alloc   uint64   `json:"alloc_bytes"`
		ok      bool
	}
	nres := make([]nativeRes, len(files))
	for i, f := range files {
		b, err := os.ReadFile(f + ".result.json")
		if err == nil && json.Unmarshal(b, &nres[i]) == nil {
			nres[i].ok = true
		}
	}

	// ----- classify -----
	exit := 0
	var lines []string
	var inconclusive []string
	confirmed := 0
	validated := 0
	knownReproduced := 0
	sampleMismatch := 0
	for i, df := range dfs {
		nr := nres[i]
		switch df.Kind {
		case "cex":
			if *flagNoNative {
				inconclusive = append(inconclusive, fmt.Sprintf("assert=%s reason=not-replayed file=%s %s", df.AssertID, files[i], oneLine(df.Msg, 300)))
				continue
			}
			repro := false
			if nr.ok && !nr.Skipped {
				for _, f := range nr.Failed {
					if f == df.AssertID {
						repro = true
					}
				}
				if strings.HasSuffix(df.AssertID, ".uncaught-panic") && nr.Panic != "" && samePanicKind(df.Msg, nr.Panic) {
					repro = true
				}
				if strings.HasSuffix(df.AssertID, ".no-crash") && nr.Panic != "" {
					repro = true
				}
				if strings.HasSuffix(df.AssertID, ".alloc-bounded") {
					// the symbolic run predicts an allocation of alloc-elems x elem-bytes for this
					// input; confirmed when the real code allocated at least that much (and the
					// amount is far above what a harness allocates by itself), or refused to
					var elems, eb uint64
					fmt.Sscanf(df.Msg, "alloc-elems=%d elem-bytes=%d", &elems, &eb)
					if elems > 0 && eb > 0 && elems*eb >= 1<<20 && elems < 1<<40 && nr.Alloc >= elems*eb {
						repro = true
					}
					if strings.Contains(nr.Panic, "out of range") || strings.Contains(nr.Panic, "out of memory") {
						repro = true
					}
					// a predicted size that no allocator can serve shows natively as the run-time
					// refusing it: a panic, which the harness may have caught and reported as such
					if elems >= 1<<40 {
						for _, f := range nr.Failed {
							if strings.HasSuffix(f, "no-panic") {
								repro = true
							}
						}
					}
				}
				if strings.HasSuffix(df.AssertID, ".no-deadlock") {
					for _, f := range nr.Failed {
						if f == "deadlock" {
							repro = true
						}
					}
				}
			}
			if raceConfirmed[i] {
				repro = true
			}
			if !repro && strings.HasSuffix(df.AssertID, ".data-race-free") && len(raceConfirmed) > 0 {
				continue // further reports of the race already confirmed above
			}
			if repro {
				confirmed++
				lines = append(lines, fmt.Sprintf("VIOLATION property=%s replay=%s", spec.Property, files[i]))
				lines = append(lines, fmt.Sprintf("  assert=%s entry=%s %s", df.AssertID, df.Entry, oneLine(df.Msg, 300)))
				exit = 1
			} else {
				inconclusive = append(inconclusive, fmt.Sprintf("assert=%s reason=replay-mismatch file=%s native=%+v", df.AssertID, files[i], nr))
			}
		case "sample":
			if *flagNoNative {
				continue
			}
			good := nr.ok && !nr.Skipped && len(nr.Failed) == 0 && nr.Panic == "" && len(nr.Missing) == 0 && strings.Join(nr.Obs, ";") == strings.Join(df.Obs, ";")
			if good {
				validated++
			} else {
				sampleMismatch++
				inconclusive = append(inconclusive, fmt.Sprintf("reason=translator-validation-mismatch file=%s symbolic_obs=%v native=%+v", files[i], df.Obs, nr))
			}
		case "known":
			repro := false
			if nr.ok && !nr.Skipped {
				for _, f := range nr.Failed {
					if f == df.AssertID {
						repro = true
					}
				}
				if strings.HasSuffix(df.AssertID, ".uncaught-panic") && nr.Panic != "" {
					repro = true
				}
			}
			for _, k := range known {
				if k.ID == df.Finding {
					if repro {
						knownReproduced++
						lines = append(lines, fmt.Sprintf("KNOWN-FINDING: property=%s %s [%s]", spec.Property, k.What, k.ID))
					} else {
						inconclusive = append(inconclusive, fmt.Sprintf("finding=%s reason=known-witness-did-not-reproduce native=%+v", k.ID, nr))
					}
				}
			}
		}
	}
	if !nativeOK && len(files) > 0 && !*flagNoNative {
		inconclusive = append(inconclusive, "reason=native-run-failed output="+tail(nativeOut, 600))
	}
	for _, r := range results {
		keys := make([]string, 0, len(r.Inconcl))
		for k := range r.Inconcl {
			keys = append(keys, k)
		}
		sort.Strings(keys)
		for _, k := range keys {
			ic := r.Inconcl[k]
			inconclusive = append(inconclusive, fmt.Sprintf("entry=%s reason=%s count=%d %s", r.Entry, ic.Kind, ic.Count, oneLine(ic.Msg, 400)))
		}
		// vacuity: required reach labels and at least one obligation
		for _, e := range entries {
			if e.Func != r.Entry {
				continue
			}
			for _, l := range e.Reach {
				if r.Reached[l] == 0 {
					inconclusive = append(inconclusive, fmt.Sprintf("entry=%s reason=vacuous label=%s never reached", r.Entry, l))
				}
			}
		}
		if r.Obligations == 0 {
			inconclusive = append(inconclusive, fmt.Sprintf("entry=%s reason=vacuous no obligation reached", r.Entry))
		}
	}
	for _, l := range lines {
		fmt.Println(l)
	}
	for _, l := range inconclusive {
		fmt.Printf("INCONCLUSIVE property=%s %s\n", spec.Property, l)
	}

	// ----- evidence -----
	writeEvidence(&spec, tier, results, prog, evExtra{
		loadDur: loadDur, nativeDur: nativeDur, validated: validated, confirmed: confirmed, knownReproduced: knownReproduced,
		inconclusive: inconclusive, violations: confirmed, t0: t0, instr: ist, workers: workers, lines: lines, sampleMismatch: sampleMismatch,
	})
	status := "PASS"
	if exit != 0 {
		status = "FAIL"
	} else if len(inconclusive) > 0 {
		status = "PASS-WITH-INCONCLUSIVE"
	}
	tp, to, td := 0, 0, 0
	for _, r := range results {
		tp += r.Paths
		to += r.Obligations
		td += r.Discharged
	}
	fmt.Printf("%s property=%s tier=%s paths=%d obligations=%d discharged=%d validated_natively=%d known=%d inconclusive=%d wall=%s\n",
		status, spec.Property, *flagTier, tp, to, td, validated, knownReproduced, len(inconclusive), time.Since(t0).Round(time.Millisecond))
	return exit
}

func oneLine(s string, n int) string {
	s = strings.ReplaceAll(s, "\n", " | ")
	if len(s) > n {
		s = s[:n] + "…"
	}
	return s
}

func tail(s string, n int) string {
	s = strings.ReplaceAll(s, "\n", " | ")
	if len(s) > n {
		return s[len(s)-n:]
	}
	return s
}

func fatal(err error) {
	fmt.Fprintln(os.Stderr, "gosym:", err)
	os.Exit(2)
}

func findFunc(prog *ssa.Program, qualified string) *ssa.Function {
	i := strings.LastIndex(qualified, ".")
	if i < 0 {
		return nil
	}
	pkgPath, name := qualified[:i], qualified[i+1:]
	for _, p := range prog.AllPackages() {
		if p.Pkg.Path() == pkgPath {
			return p.Func(name)
		}
	}
	return nil
}

func defaultInitAllow() map[string]bool {
	m := map[string]bool{}
	for _, p := range []string{"errors", "io", "strconv", "unicode/utf8", "strings", "bytes", "encoding/binary", "encoding/base64", "encoding/hex",
		"math/bits", "sort", "math", "internal/bytealg", "internal/stringslite", "internal/itoa", "unicode", "bufio", "time", "sync", "sync/atomic", "context",
		rtPkg} {
		m[p] = true
	}
	m["unicode"] = false
	m["errors"] = false
	m["sync"] = false
	m["sync/atomic"] = false
	m["context"] = false
	return m
}

var defaultNoop = []string{
	"(*" + repoMod + "/internal/provider/logging.stderrLogger).Printf",
	repoMod + "/internal/provider/logging.LogError",
	repoMod + "/internal/provider/logging.LogAction",
	repoMod + "/internal/provider/logging.LogTarget",
}

func runNative(spec *Spec, ovFile string, files []string, extraArgs, extraEnv []string) (string, error) {
	args := []string{"test", "-vet=off", "-count=1", "-run", "^TestVerifEntry_", "-overlay", ovFile, "-timeout", "20m"}
	args = append(args, extraArgs...)
	for _, ps := range spec.Packages {
		if len(ps.Entries) > 0 {
			args = append(args, "./"+ps.PkgDir)
		}
	}
	cmd := exec.Command("go", args...)
	cmd.Dir = *flagRepo
	cmd.Env = append(append(goEnv(), "VERIF_DRAWS="+strings.Join(files, ":")), extraEnv...)
	var out bytes.Buffer
	cmd.Stdout = &out
	cmd.Stderr = &out
	err := cmd.Run()
	return out.String(), err
}

// raceReplay runs one counterexample with free-running threads under the Go race detector.
func raceReplay(spec *Spec, ovPlain, file string) (bool, string) {
	out, _ := runNative(spec, ovPlain, []string{file}, []string{"-race"}, []string{"VERIF_THREADS=free", "VERIF_ATTEMPTS=60", "CGO_ENABLED=1"})
	return strings.Contains(out, "WARNING: DATA RACE"), out
}

func replayOnly(spec *Spec, ovFile, ovPlain, file string) int {
	abs, _ := filepath.Abs(file)
	if b, err := os.ReadFile(abs); err == nil {
		var df struct {
			AssertID string `json:"assert_id"`
		}
		json.Unmarshal(b, &df)
		if strings.HasSuffix(df.AssertID, ".data-race-free") {
			ok, out := raceReplay(spec, ovPlain, abs)
			fmt.Println(tail(out, 4000))
			if ok {
				fmt.Printf("VIOLATION property=%s replay=%s\n", spec.Property, abs)
				return 1
			}
			return 0
		}
	}
	out, err := runNative(spec, ovFile, []string{abs}, nil, nil)
	fmt.Println(out)
	b, rerr := os.ReadFile(abs + ".result.json")
	if rerr == nil {
		fmt.Println(string(b))
		var r struct {
			Failed []string `json:"failed"`
			Panic  string   `json:"panic"`
		}
		json.Unmarshal(b, &r)
		if len(r.Failed) > 0 || r.Panic != "" {
			fmt.Printf("VIOLATION property=%s replay=%s\n", spec.Property, abs)
			return 1
		}
	}
	if err != nil {
		return 2
	}
	return 0
}

// ---------- evidence ----------

type evExtra struct {
	loadDur, nativeDur time.Duration
	validated, confirmed, knownReproduced, violations, workers, sampleMismatch int
	inconclusive, lines []string
	t0 time.Time
	instr instrStats
}

func fileSHA(path string, cache map[string]string) string {
	if v, ok := cache[path]; ok {
		return v
	}
	b, err := os.ReadFile(path)
	if err != nil {
		cache[path] = ""
		return ""
	}
	h := sha256.Sum256(b)
	cache[path] = hex.EncodeToString(h[:8])
	return cache[path]
}

func writeEvidenceFailure(spec *Spec, why string, t0 time.Time) {
	ev := map[string]interface{}{
		"property_id": spec.Property, "tier": *flagTier, "seed": *flagSeed, "level": "model_checking",
		"coverage": map[string]interface{}{"evaluations": 0, "distinct_nontrivial": 0, "explanation": "check could not run: " + why},
		"wall_s":   time.Since(t0).Seconds(), "violations": 0,
	}
	b, _ := json.MarshalIndent(ev, "", " ")
	os.MkdirAll(evidenceDir(), 0o755)
	os.WriteFile(filepath.Join(evidenceDir(), spec.Property+".json"), b, 0o644)
}

func writeEvidence(spec *Spec, tier TierSpec, results []*sym.EntryResult, prog *ssa.Program, x evExtra) {
	shaCache := map[string]string{}
	type fnRec struct {
		Name string `json:"name"`
		File string `json:"file"`
		SHA  string `json:"sha256_8"`
	}
	fnSet := map[string]fnRec{}
	var states, transitions, obligations, discharged, trivial, filtered, panics int64
	var steps int64
	queries := map[string]int{}
	var solverWall time.Duration
	var maxQ time.Duration
	exhaustive := true
	var samples []interface{}
	perEntry := []map[string]interface{}{}
	uninit := map[string]bool{}
	for _, r := range results {
		states += int64(r.Paths) + int64(r.PanicPaths)
		transitions += r.Decisions
		obligations += int64(r.Obligations)
		discharged += int64(r.Discharged)
		trivial += int64(r.Trivial)
		filtered += int64(r.Filtered)
		panics += int64(r.PanicPaths)
		steps += r.Steps
		queries["total"] += r.Solver.Queries
		queries["sat"] += r.Solver.Sat
		queries["unsat"] += r.Solver.Unsat
		queries["unknown"] += r.Solver.Unknown
		queries["errors"] += r.Solver.Errors
		solverWall += r.Solver.Wall
		if r.Solver.MaxQuery > maxQ {
			maxQ = r.Solver.MaxQuery
		}
		if !r.Exhaustive {
			exhaustive = false
		}
		for u := range r.Uninit {
			uninit[u] = true
		}
		for f := range r.Funcs {
			if f.Pkg == nil && f.Origin() == nil && f.Synthetic == "" {
				continue
			}
			pkg := f.Pkg
			if pkg == nil && f.Origin() != nil {
				pkg = f.Origin().Pkg
			}
			if pkg == nil || !strings.HasPrefix(pkg.Pkg.Path(), repoMod) || pkg.Pkg.Path() == rtPkg {
				continue
			}
			pos := prog.Fset.Position(f.Pos())
			if !pos.IsValid() {
				continue
			}
			if strings.Contains(pos.Filename, "zz_verif_") {
				continue
			}
			rel := strings.TrimPrefix(pos.Filename, *flagRepo+"/")
			fnSet[f.String()] = fnRec{Name: f.String(), File: rel, SHA: fileSHA(pos.Filename, shaCache)}
		}
		for _, s := range r.Samples {
			samples = append(samples, s)
		}
		ids := []string{}
		for id, n := range r.AssertIDs {
			ids = append(ids, fmt.Sprintf("%s×%d", id, n))
		}
		sort.Strings(ids)
		reached := []string{}
		for l, n := range r.Reached {
			reached = append(reached, fmt.Sprintf("%s×%d", l, n))
		}
		sort.Strings(reached)
		perEntry = append(perEntry, map[string]interface{}{
			"entry": r.Entry, "paths_completed": r.Paths, "paths_filtered_by_assume": r.Filtered, "paths_panicking": r.PanicPaths,
			"decisions": r.Decisions, "solver_decided_branches": r.Unforced, "ssa_instructions": r.Steps,
			"obligations": r.Obligations, "discharged": r.Discharged, "assert_sites": ids, "reach_witnesses": reached,
			"thread_schedules_explored": r.ThreadPaths, "scheduling_points_passed": r.SchedPoints, "max_preemptions_on_a_path": r.MaxPreempts, "race_detector_accesses_checked": r.RaceChecks,
			"exhaustive": r.Exhaustive, "wall_s": r.Wall.Seconds(), "violations": len(r.Violations), "max_alloc_elems_on_a_path": r.MaxAlloc,
		})
	}
	fns := make([]fnRec, 0, len(fnSet))
	for _, f := range fnSet {
		fns = append(fns, f)
	}
	sort.Slice(fns, func(i, j int) bool { return fns[i].Name < fns[j].Name })
	// functions the spec promised to encode must have been executed
	var missingFns []string
	for _, want := range spec.Functions {
		found := false
		for _, f := range fns {
			if f.Name == want || strings.HasSuffix(f.Name, want) {
				found = true
				break
			}
		}
		if !found {
			missingFns = append(missingFns, want)
		}
	}
	if len(samples) == 0 {
		samples = append(samples, map[string]interface{}{"note": "no completed path was sampled"})
	}
	if states == 0 {
		states = 0
	}
	un := []string{}
	for u := range uninit {
		un = append(un, u)
	}
	sort.Strings(un)
	assumptions := append([]string{}, spec.Assumptions...)
	for _, s := range spec.Stubs {
		assumptions = append(assumptions, "stub: "+s)
	}
	for _, s := range spec.Outside {
		assumptions = append(assumptions, "outside the claim: "+s)
	}
	assumptions = append(assumptions,
		"trusted base: golang.org/x/tools/go/ssa v0.29.0 (go1.24.0), gosym interpreter + term simplifier, SMT-LIB printer, "+*flagSolver,
		"package initialisers are executed only for the allow-listed packages; other packages keep zero-valued globals",
		fmt.Sprintf("loop bound %d per loop header per frame (unwinding assertion: exceeding it is reported inconclusive), instruction budget %d per path", tierLoop(tier), tierBudget(tier)),
	)
	coverage := map[string]interface{}{
		"states":                        states,
		"transitions":                   transitions,
		"traces_validated_against_impl": x.validated + x.confirmed + x.knownReproduced,
		"samples":                       samples,
		"obligations":                   obligations,
		"discharged":                    discharged,
		"trivially_true_obligations":    trivial,
		"exhaustive":                    exhaustive && len(x.inconclusive) == 0,
		"explanation": "states = completed symbolic paths of the harness over the real SSA (each path stands for every concrete input satisfying its path condition); transitions = branch/choice decisions taken, each feasibility-checked by the SMT solver; obligations = assertion instances, discharged = solver answered unsat for PC ∧ ¬assertion; traces_validated = native runs of the compiled real code on solver-chosen inputs that agreed with the symbolic run (observations equal, no assertion failed) plus natively confirmed counterexamples",
		"functions_encoded":     fns,
		"functions_encoded_n":   len(fns),
		"functions_promised_but_not_reached": missingFns,
		"bounds":                tier.Bounds,
		"queries":               queries,
		"solver":                *flagSolver,
		"solver_wall_s":         solverWall.Seconds(),
		"max_query_s":           maxQ.Seconds(),
		"ssa_instructions":      steps,
		"paths_filtered":        filtered,
		"paths_panicking":       panics,
		"per_entry":             perEntry,
		"inconclusive":          x.inconclusive,
		"report_lines":          x.lines,
		"known_findings_reproduced": x.knownReproduced,
		"translator_validation": map[string]int{"samples_agreed": x.validated, "samples_disagreed": x.sampleMismatch},
		"load_ssa_s":            x.loadDur.Seconds(),
		"native_replay_s":       x.nativeDur.Seconds(),
		"workers":               x.workers,
		"uninitialised_packages_touched": un,
		"rule":                  spec.Rule,
	}
	if len(spec.Instrument) > 0 {
		coverage["thread_replay_instrumentation"] = map[string]interface{}{"packages": spec.Instrument, "files_rewritten": x.instr.Files, "scheduling_points_inserted": x.instr.Points, "not_instrumentable": x.instr.Warnings, "atomic_funcs": spec.AtomicFuncs}
	}
	ev := map[string]interface{}{
		"property_id": spec.Property,
		"tier":        *flagTier,
		"seed":        *flagSeed,
		"level":       "model_checking",
		"coverage":    coverage,
		"assumptions": assumptions,
		"wall_s":      time.Since(x.t0).Seconds(),
		"violations":  x.violations,
	}
	if states == 0 || transitions == 0 {
		// schema requires >=1 for the model_checking keys; fall back to generic keys honestly
		delete(coverage, "states")
		delete(coverage, "transitions")
		coverage["evaluations"] = states
		coverage["distinct_nontrivial"] = 0
	}
	b, _ := json.MarshalIndent(ev, "", " ")
	os.MkdirAll(evidenceDir(), 0o755)
	os.WriteFile(filepath.Join(evidenceDir(), spec.Property+".json"), b, 0o644)
}

func tierLoop(t TierSpec) int {
	if t.LoopBound == 0 {
		return 256
	}
	return t.LoopBound
}

func tierBudget(t TierSpec) int64 {
	if t.InstrBudget == 0 {
		return 20_000_000
	}
	return t.InstrBudget
}

var _ = types.Universe
