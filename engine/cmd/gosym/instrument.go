package main

import (
	"bytes"
	"fmt"
	"go/ast"
	"go/printer"
	"go/token"
	"go/types"
	"os"
	"path/filepath"
	"strings"

	"golang.org/x/tools/go/ast/astutil"
	"golang.org/x/tools/go/packages"
)

// Replay instrumentation for thread harnesses.
//
// The symbolic executor switches threads only at scheduling points: immediately before
// Lock/RLock/TryLock, sync.Pool Get/Put, sync/atomic operations, channel operations,
// select, Once.Do and WaitGroup.Wait. To replay one of its schedules against the real
// code, the same points have to exist in the native build. This pass rewrites, from the
// current source of every package listed under "instrument" (and the harness files laid
// over them), exactly those operations:
//
//	X.Lock()            ->  verifrt.Acquire(X.TryLock, X.Lock)
//	X.RLock()           ->  verifrt.Acquire(X.TryRLock, X.RLock)
//	X.M(args)           ->  verifrt.P(&X).M(args)        (Pool, Once, WaitGroup, atomic.Int64, TryLock ...)
//	atomic.F(p, args)   ->  atomic.F(verifrt.P(p), args)
//	ch <- v, <-ch       ->  verifrt.P(ch) <- v, <-verifrt.P(ch)
//	select { ... }      ->  verifrt.Point(); select { ... }
//
// verifrt.P(x) is the identity preceded by a scheduling point. Outside a schedule replay
// every one of these helpers degenerates to the original operation. The instrumented files
// live under /verif/out and are passed to `go test` through -overlay; /repo is not touched.

var schedMethods = map[string]string{
	"(*sync.Mutex).Lock":      "lock",
	"(*sync.RWMutex).Lock":    "lock",
	"(*sync.RWMutex).RLock":   "rlock",
	"(*sync.Mutex).TryLock":   "recv",
	"(*sync.RWMutex).TryLock": "recv",
	"(*sync.Pool).Get":        "recv",
	"(*sync.Pool).Put":        "recv",
	"(*sync.Once).Do":         "recv",
	"(*sync.WaitGroup).Wait":  "recv",
}

func isAtomicFunc(f *types.Func) bool {
	return f.Pkg() != nil && f.Pkg().Path() == "sync/atomic"
}

type instrStats struct {
	Files    int
	Points   int
	Warnings []string // operations that cannot be given a replay point (only matter if a thread executes them)
}

func instrumentPackage(p *packages.Package, outDir string, repl map[string]string, st *instrStats, atomicFns map[string]bool) error {
	for i, f := range p.Syntax {
		if i >= len(p.CompiledGoFiles) {
			break
		}
		path := p.CompiledGoFiles[i]
		if strings.HasSuffix(path, "_test.go") {
			continue
		}
		n := 0
		info := p.TypesInfo
		recvExpr := func(x ast.Expr) ast.Expr {
			t := info.TypeOf(x)
			var arg ast.Expr = x
			if t != nil {
				if _, isPtr := t.Underlying().(*types.Pointer); !isPtr {
					arg = &ast.UnaryExpr{Op: token.AND, X: x}
				}
			}
			return &ast.CallExpr{Fun: &ast.SelectorExpr{X: ast.NewIdent("verifrt"), Sel: ast.NewIdent("P")}, Args: []ast.Expr{arg}}
		}
		wrapP := func(x ast.Expr) ast.Expr {
			return &ast.CallExpr{Fun: &ast.SelectorExpr{X: ast.NewIdent("verifrt"), Sel: ast.NewIdent("P")}, Args: []ast.Expr{x}}
		}
		isChan := func(x ast.Expr) bool {
			t := info.TypeOf(x)
			if t == nil {
				return false
			}
			_, ok := t.Underlying().(*types.Chan)
			return ok
		}
		skip := map[ast.Node]bool{}
		var bad []string
		astutil.Apply(f, func(c *astutil.Cursor) bool {
			if skip[c.Node()] {
				return false
			}
			switch nd := c.Node().(type) {
			case *ast.FuncDecl:
				// functions the executor runs as one indivisible step get no replay points
				if fo, ok := info.Defs[nd.Name].(*types.Func); ok && atomicFns[fo.FullName()] {
					return false
				}
			case *ast.RangeStmt:
				if isChan(nd.X) {
					bad = append(bad, p.Fset.Position(nd.Pos()).String()+": range over a channel")
				}
			case *ast.CallExpr:
				sel, ok := nd.Fun.(*ast.SelectorExpr)
				if !ok {
					return true
				}
				fn, ok := info.Uses[sel.Sel].(*types.Func)
				if !ok {
					return true
				}
				full := fn.FullName()
				switch schedMethods[full] {
				case "lock":
					c.Replace(&ast.CallExpr{Fun: &ast.SelectorExpr{X: ast.NewIdent("verifrt"), Sel: ast.NewIdent("Acquire")},
						Args: []ast.Expr{&ast.SelectorExpr{X: sel.X, Sel: ast.NewIdent("TryLock")}, &ast.SelectorExpr{X: sel.X, Sel: ast.NewIdent("Lock")}}})
					n++
					return false
				case "rlock":
					c.Replace(&ast.CallExpr{Fun: &ast.SelectorExpr{X: ast.NewIdent("verifrt"), Sel: ast.NewIdent("Acquire")},
						Args: []ast.Expr{&ast.SelectorExpr{X: sel.X, Sel: ast.NewIdent("TryRLock")}, &ast.SelectorExpr{X: sel.X, Sel: ast.NewIdent("RLock")}}})
					n++
					return false
				case "recv":
					sel.X = recvExpr(sel.X)
					n++
					return true
				}
				if isAtomicFunc(fn) {
					if sig := fn.Type().(*types.Signature); sig.Recv() != nil {
						sel.X = recvExpr(sel.X)
						n++
					} else if len(nd.Args) > 0 {
						nd.Args[0] = wrapP(nd.Args[0])
						n++
					}
				}
			case *ast.SendStmt:
				nd.Chan = wrapP(nd.Chan)
				n++
			case *ast.UnaryExpr:
				if nd.Op == token.ARROW && isChan(nd.X) {
					nd.X = wrapP(nd.X)
					n++
				}
			case *ast.SelectStmt:
				switch c.Parent().(type) {
				case *ast.BlockStmt, *ast.CaseClause, *ast.CommClause:
					c.InsertBefore(&ast.ExprStmt{X: &ast.CallExpr{Fun: &ast.SelectorExpr{X: ast.NewIdent("verifrt"), Sel: ast.NewIdent("Point")}}})
					n++
				default:
					bad = append(bad, p.Fset.Position(nd.Pos()).String()+": select in a position where no statement can be inserted")
				}
				// the communications of a select are covered by the point in front of it
				for _, cl := range nd.Body.List {
					if cc := cl.(*ast.CommClause); cc.Comm != nil {
						skip[cc.Comm] = true
					}
				}
			}
			return true
		}, nil)
		st.Warnings = append(st.Warnings, bad...)
		if n == 0 {
			continue
		}
		astutil.AddImport(p.Fset, f, rtPkg)
		var buf bytes.Buffer
		if err := (&printer.Config{Mode: printer.UseSpaces | printer.TabIndent, Tabwidth: 8}).Fprint(&buf, p.Fset, f); err != nil {
			return fmt.Errorf("instrument %s: %v", path, err)
		}
		rel := strings.ReplaceAll(strings.TrimPrefix(path, "/"), "/", "_")
		out := filepath.Join(outDir, rel)
		if err := os.WriteFile(out, buf.Bytes(), 0o644); err != nil {
			return err
		}
		repl[path] = out
		st.Files++
		st.Points += n
	}
	return nil
}
