// Package smt drives a resident SMT solver process (z3 -in, z3-new -in,
// cvc5 --incremental) over pipes with push/pop.
package smt

import (
	"bufio"
	"fmt"
	"io"
	"os"
	"os/exec"
	"strconv"
	"strings"
	"time"

	"verif/engine/term"
)

type Result int

const (
	Unknown Result = iota
	Sat
	Unsat
)

func (r Result) String() string {
	switch r {
	case Sat:
		return "sat"
	case Unsat:
		return "unsat"
	}
	return "unknown"
}

type Stats struct {
	Queries  int
	Sat      int
	Unsat    int
	Unknown  int
	Errors   int
	Wall     time.Duration
	MaxQuery time.Duration
}

type Solver struct {
	Kind  string
	cmd   *exec.Cmd
	in    io.WriteCloser
	out   *bufio.Reader
	pr    *term.Printer
	depth int
	Stats Stats
	Log   io.Writer // optional transcript
	LastError string
	timeoutMs int
}

func New(kind string, timeoutMs int) (*Solver, error) {
	var cmd *exec.Cmd
	switch kind {
	case "z3", "z3-new":
		cmd = exec.Command(kind, "-in", "-smt2")
	case "cvc5":
		cmd = exec.Command("cvc5", "--incremental", "--lang=smt2", "--produce-models", fmt.Sprintf("--tlimit-per=%d", timeoutMs))
	default:
		return nil, fmt.Errorf("unknown solver %q", kind)
	}
	in, err := cmd.StdinPipe()
	if err != nil {
		return nil, err
	}
	out, err := cmd.StdoutPipe()
	if err != nil {
		return nil, err
	}
	cmd.Stderr = cmd.Stdout
	if err := cmd.Start(); err != nil {
		return nil, err
	}
	s := &Solver{Kind: kind, cmd: cmd, in: in, out: bufio.NewReaderSize(out, 1<<16), pr: term.NewPrinter(), timeoutMs: timeoutMs}
	if lp := os.Getenv("GOSYM_SMTLOG"); lp != "" {
		if f, err := os.Create(fmt.Sprintf("%s.%d", lp, cmd.Process.Pid)); err == nil {
			s.Log = f
		}
	}
	s.preamble()
	return s, nil
}

func (s *Solver) preamble() {
	if s.Kind == "cvc5" {
		s.send("(set-logic ALL)\n")
	} else {
		s.send("(set-option :produce-models true)\n")
		s.send(fmt.Sprintf("(set-option :timeout %d)\n", s.timeoutMs))
	}
}

func (s *Solver) send(str string) {
	if s.Log != nil {
		io.WriteString(s.Log, str)
	}
	io.WriteString(s.in, str)
}

func (s *Solver) Close() {
	if s.cmd != nil {
		s.in.Close()
		s.cmd.Process.Kill()
		s.cmd.Wait()
		s.cmd = nil
	}
}

func (s *Solver) Depth() int { return s.depth }

func (s *Solver) Push() {
	s.flushDefs()
	s.send("(push 1)\n")
	s.pr.Push()
	s.depth++
}

func (s *Solver) Pop() {
	s.flushDefs()
	s.send("(pop 1)\n")
	s.pr.Pop()
	s.depth--
}

// PopTo pops until the given depth.
func (s *Solver) PopTo(d int) {
	for s.depth > d {
		s.Pop()
	}
}

// Reset clears all solver state.
func (s *Solver) Reset() {
	s.pr.Out.Reset()
	s.send("(reset)\n")
	s.pr.Reset()
	s.depth = 0
	s.preamble()
}

func (s *Solver) flushDefs() {
	if s.pr.Out.Len() > 0 {
		s.send(s.pr.Out.String())
		s.pr.Out.Reset()
	}
}

func (s *Solver) Assert(t *term.T) {
	if t.IsTrue() {
		return
	}
	r := s.pr.Ref(t)
	s.flushDefs()
	s.send("(assert " + r + ")\n")
}

// Check runs check-sat on the current assertion stack.
func (s *Solver) Check() Result {
	s.flushDefs()
	t0 := time.Now()
	s.send("(check-sat)\n")
	res := Unknown
	sawErr := false
	for {
		line, err := s.out.ReadString('\n')
		if err != nil {
			s.LastError = "solver died: " + err.Error()
			sawErr = true
			break
		}
		line = strings.TrimSpace(line)
		if line == "" {
			continue
		}
		if s.Log != nil {
			io.WriteString(s.Log, ";; <- "+line+"\n")
		}
		if line == "sat" {
			res = Sat
			break
		}
		if line == "unsat" {
			res = Unsat
			break
		}
		if line == "unknown" || line == "timeout" {
			res = Unknown
			break
		}
		if strings.HasPrefix(line, "(error") {
			sawErr = true
			s.LastError = line
			continue
		}
		// other chatter (e.g. cvc5 interrupted messages)
		if strings.Contains(line, "interrupted") || strings.Contains(line, "resource") {
			continue
		}
		s.LastError = "unexpected solver output: " + line
		sawErr = true
	}
	d := time.Since(t0)
	if os.Getenv("GOSYM_QTRACE") != "" {
		fmt.Fprintf(os.Stderr, "query %d: %s %s at %s\n", s.Stats.Queries, res, d, time.Now().Format("05.000"))
	}
	s.Stats.Queries++
	s.Stats.Wall += d
	if d > s.Stats.MaxQuery {
		s.Stats.MaxQuery = d
	}
	if sawErr {
		s.Stats.Errors++
		res = Unknown
	}
	switch res {
	case Sat:
		s.Stats.Sat++
	case Unsat:
		s.Stats.Unsat++
	default:
		s.Stats.Unknown++
	}
	return res
}

// CheckWith checks the stack plus extra assumptions in a temporary scope.
func (s *Solver) CheckWith(extra ...*term.T) Result {
	s.Push()
	for _, t := range extra {
		s.Assert(t)
	}
	r := s.Check()
	s.Pop()
	return r
}

// Values returns the model values of the given terms (call right after a Sat
// Check, in the same scope). Bool terms map to 0/1.
func (s *Solver) Values(ts []*term.T) ([]uint64, error) {
	if len(ts) == 0 {
		return nil, nil
	}
	refs := make([]string, len(ts))
	for i, t := range ts {
		refs[i] = s.pr.Ref(t)
	}
	s.flushDefs()
	s.send("(get-value (" + strings.Join(refs, " ") + "))\n")
	// read a balanced s-expression
	var sb strings.Builder
	depth := 0
	started := false
	for {
		c, err := s.out.ReadByte()
		if err != nil {
			return nil, err
		}
		if c == '|' { // quoted symbol: copy verbatim
			sb.WriteByte(c)
			for {
				c2, err := s.out.ReadByte()
				if err != nil {
					return nil, err
				}
				sb.WriteByte(c2)
				if c2 == '|' {
					break
				}
			}
			continue
		}
		if c == '(' {
			depth++
			started = true
		}
		if c == ')' {
			depth--
		}
		sb.WriteByte(c)
		if started && depth == 0 {
			break
		}
	}
	txt := sb.String()
	if s.Log != nil {
		io.WriteString(s.Log, ";; <- "+strings.ReplaceAll(txt, "\n", " ")+"\n")
	}
	if strings.Contains(txt, "(error") {
		return nil, fmt.Errorf("solver: %s", txt)
	}
	toks := tokenize(txt)
	// structure: ( ( ref val ) ( ref val ) ... ) ; val is an atom or (_ bvN w)
	vals := make([]uint64, 0, len(ts))
	i := 0
	expect := func(t string) error {
		if i >= len(toks) || toks[i] != t {
			return fmt.Errorf("solver: parse get-value at %d: %q", i, txt)
		}
		i++
		return nil
	}
	if err := expect("("); err != nil {
		return nil, err
	}
	for k := 0; k < len(ts); k++ {
		if err := expect("("); err != nil {
			return nil, err
		}
		// skip the reference expression (atom or balanced list)
		if toks[i] == "(" {
			d := 0
			for {
				if toks[i] == "(" {
					d++
				} else if toks[i] == ")" {
					d--
				}
				i++
				if d == 0 {
					break
				}
			}
		} else {
			i++
		}
		var v uint64
		tk := toks[i]
		switch {
		case tk == "true":
			v = 1
			i++
		case tk == "false":
			v = 0
			i++
		case strings.HasPrefix(tk, "#x"):
			v, _ = strconv.ParseUint(tk[2:], 16, 64)
			i++
		case strings.HasPrefix(tk, "#b"):
			v, _ = strconv.ParseUint(tk[2:], 2, 64)
			i++
		case tk == "(": // (_ bv123 32)
			i++
			if toks[i] == "_" && strings.HasPrefix(toks[i+1], "bv") {
				v, _ = strconv.ParseUint(toks[i+1][2:], 10, 64)
				i += 3
				if err := expect(")"); err != nil {
					return nil, err
				}
			} else {
				return nil, fmt.Errorf("solver: unsupported value in %q", txt)
			}
		default:
			return nil, fmt.Errorf("solver: unsupported value %q in %q", tk, txt)
		}
		vals = append(vals, v)
		if err := expect(")"); err != nil {
			return nil, err
		}
	}
	return vals, nil
}

func tokenize(s string) []string {
	var toks []string
	i := 0
	for i < len(s) {
		c := s[i]
		switch {
		case c == ' ' || c == '\n' || c == '\t' || c == '\r':
			i++
		case c == '(' || c == ')':
			toks = append(toks, string(c))
			i++
		case c == '|':
			j := i + 1
			for j < len(s) && s[j] != '|' {
				j++
			}
			toks = append(toks, s[i:j+1])
			i = j + 1
		default:
			j := i
			for j < len(s) && !strings.ContainsRune(" \n\t\r()", rune(s[j])) {
				j++
			}
			toks = append(toks, s[i:j])
			i = j
		}
	}
	return toks
}

// CheckFresh decides the conjunction of the given terms in a fresh one-shot
// solver process (non-incremental: the solver may use its full preprocessing
// and bit-blasting pipeline). On Sat, values of `want` are returned.
func CheckFresh(kind string, timeoutMs int, asserts []*term.T, want []*term.T) (Result, []uint64, time.Duration, error) {
	t0 := time.Now()
	pr := term.NewPrinter()
	var body strings.Builder
	for _, a := range asserts {
		if a.IsTrue() {
			continue
		}
		r := pr.Ref(a)
		body.WriteString(pr.Out.String())
		pr.Out.Reset()
		body.WriteString("(assert " + r + ")\n")
	}
	var refs []string
	for _, w := range want {
		refs = append(refs, pr.Ref(w))
		body.WriteString(pr.Out.String())
		pr.Out.Reset()
	}
	var script strings.Builder
	if kind == "cvc5" {
		script.WriteString("(set-logic ALL)\n")
	}
	script.WriteString("(set-option :produce-models true)\n")
	script.WriteString(body.String())
	script.WriteString("(check-sat)\n")
	if len(refs) > 0 {
		script.WriteString("(get-value (" + strings.Join(refs, " ") + "))\n")
	}
	var cmd *exec.Cmd
	switch kind {
	case "cvc5":
		cmd = exec.Command("cvc5", "--lang=smt2", "--produce-models", fmt.Sprintf("--tlimit=%d", timeoutMs))
	default:
		cmd = exec.Command(kind, "-in", "-smt2", fmt.Sprintf("-T:%d", (timeoutMs+999)/1000))
	}
	cmd.Stdin = strings.NewReader(script.String())
	out, err := cmd.Output()
	d := time.Since(t0)
	txt := string(out)
	lines := strings.SplitN(strings.TrimSpace(txt), "\n", 2)
	if len(lines) == 0 {
		return Unknown, nil, d, err
	}
	if strings.Contains(txt, "(error") && !strings.Contains(txt, "model is not available") {
		return Unknown, nil, d, fmt.Errorf("solver error: %s", strings.TrimSpace(txt))
	}
	switch strings.TrimSpace(lines[0]) {
	case "unsat":
		return Unsat, nil, d, nil
	case "sat":
		if len(refs) == 0 {
			return Sat, nil, d, nil
		}
		if len(lines) < 2 {
			return Unknown, nil, d, fmt.Errorf("no model output")
		}
		vals, perr := parseValues(lines[1], len(refs))
		if perr != nil {
			return Unknown, nil, d, perr
		}
		return Sat, vals, d, nil
	}
	return Unknown, nil, d, nil
}

func parseValues(txt string, n int) ([]uint64, error) {
	toks := tokenize(txt)
	vals := make([]uint64, 0, n)
	i := 0
	if len(toks) == 0 || toks[0] != "(" {
		return nil, fmt.Errorf("parse get-value: %q", txt)
	}
	i++
	for k := 0; k < n; k++ {
		if i >= len(toks) || toks[i] != "(" {
			return nil, fmt.Errorf("parse get-value at %d: %q", i, txt)
		}
		i++
		if toks[i] == "(" {
			d := 0
			for {
				if toks[i] == "(" {
					d++
				} else if toks[i] == ")" {
					d--
				}
				i++
				if d == 0 {
					break
				}
			}
		} else {
			i++
		}
		var v uint64
		tk := toks[i]
		switch {
		case tk == "true":
			v = 1
			i++
		case tk == "false":
			i++
		case strings.HasPrefix(tk, "#x"):
			v, _ = strconv.ParseUint(tk[2:], 16, 64)
			i++
		case strings.HasPrefix(tk, "#b"):
			v, _ = strconv.ParseUint(tk[2:], 2, 64)
			i++
		case tk == "(" && i+3 < len(toks) && toks[i+1] == "_" && strings.HasPrefix(toks[i+2], "bv"):
			v, _ = strconv.ParseUint(toks[i+2][2:], 10, 64)
			i += 5
		default:
			return nil, fmt.Errorf("unsupported value %q", tk)
		}
		vals = append(vals, v)
		if i >= len(toks) || toks[i] != ")" {
			return nil, fmt.Errorf("parse get-value close at %d: %q", i, txt)
		}
		i++
	}
	return vals, nil
}
