// Package term implements hash-consed bit-vector / boolean terms with a small
// sound simplifier and an SMT-LIB2 printer. All integers of the interpreted Go
// program are terms of their exact Go width (1..64 bits); no mathematical
// integers are used anywhere.
package term

import (
	"fmt"
	"math/bits"
	"strings"
)

type Op uint8

const (
	OConst Op = iota
	OTrue
	OFalse
	OVar
	OAdd
	OSub
	OMul
	OUDiv
	OURem
	OSDiv
	OSRem
	OAnd
	OOr
	OXor
	OShl
	OLShr
	OAShr
	ONot
	ONeg
	OConcat
	OExtract
	OZExt
	OSExt
	OEq
	OUlt
	OUle
	OSlt
	OSle
	OIte
	OBNot
	OBAnd
	OBOr
	OUF
	OSelect // array select: A array var (OArrVar/OStore), B index (64) -> 8
	OStore  // A array, B index, C value
	OArrVar // Name; array (BV64 -> BV8)
)

var opNames = map[Op]string{
	OAdd: "bvadd", OSub: "bvsub", OMul: "bvmul", OUDiv: "bvudiv", OURem: "bvurem", OSDiv: "bvsdiv", OSRem: "bvsrem",
	OAnd: "bvand", OOr: "bvor", OXor: "bvxor", OShl: "bvshl", OLShr: "bvlshr", OAShr: "bvashr", ONot: "bvnot", ONeg: "bvneg",
	OConcat: "concat", OEq: "=", OUlt: "bvult", OUle: "bvule", OSlt: "bvslt", OSle: "bvsle", OIte: "ite",
	OBNot: "not", OBAnd: "and", OBOr: "or", OSelect: "select", OStore: "store",
}

// T is an interned term. W is the bit width (0 = Bool, 255 = array).
type T struct {
	Op      Op
	W       uint8
	A, B, C *T
	V       uint64 // constant value / extract hi<<8|lo
	Name    string // OVar, OUF, OArrVar
	Args    []*T   // OUF
	ID      uint32
	size    uint32 // dag size estimate (tree size capped)
}

const ArrW = 255

func (t *T) IsConst() bool     { return t.Op == OConst || t.Op == OTrue || t.Op == OFalse }
func (t *T) IsBool() bool      { return t.W == 0 }
func (t *T) IsTrue() bool      { return t.Op == OTrue }
func (t *T) IsFalse() bool     { return t.Op == OFalse }
func (t *T) ConstVal() uint64  { return t.V }
func (t *T) Size() uint32      { return t.size }
func (t *T) SignedVal() int64  { return signExt(t.V, int(t.W)) }
func (t *T) BoolVal() bool     { return t.Op == OTrue }
func (t *T) String() string    { return Sprint(t) }

type key struct {
	op      Op
	w       uint8
	a, b, c uint32
	v       uint64
	name    string
}

// B is a term builder (one per worker; not safe for concurrent use).
type B struct {
	tab    map[key]*T
	next   uint32
	True   *T
	False  *T
	NoSimp bool // disable the non-trivial rewrites (used by self-tests)
	// Known holds Bool terms already asserted on the current path (true) or whose
	// negation was asserted (false); used to resolve ite / branch conditions.
	Known map[*T]bool
}

func NewB() *B {
	b := &B{tab: make(map[key]*T, 1<<10)}
	b.True = b.mk(OTrue, 0, nil, nil, nil, 0, "")
	b.False = b.mk(OFalse, 0, nil, nil, nil, 0, "")
	return b
}

func (b *B) NumTerms() int { return len(b.tab) }

func id(t *T) uint32 {
	if t == nil {
		return 0
	}
	return t.ID
}

func (b *B) mk(op Op, w uint8, x, y, z *T, v uint64, name string) *T {
	k := key{op, w, id(x), id(y), id(z), v, name}
	if t, ok := b.tab[k]; ok {
		return t
	}
	b.next++
	sz := uint32(1)
	for _, c := range []*T{x, y, z} {
		if c != nil {
			sz += c.size
		}
	}
	if sz > 1<<30 {
		sz = 1 << 30
	}
	t := &T{Op: op, W: w, A: x, B: y, C: z, V: v, Name: name, ID: b.next, size: sz}
	b.tab[k] = t
	return t
}

func mask(w int) uint64 {
	if w >= 64 {
		return ^uint64(0)
	}
	return (uint64(1) << uint(w)) - 1
}

func signExt(v uint64, w int) int64 {
	if w >= 64 {
		return int64(v)
	}
	if v&(1<<uint(w-1)) != 0 {
		return int64(v | ^mask(w))
	}
	return int64(v)
}

func (b *B) Const(w int, v uint64) *T {
	if w <= 0 || w > 64 {
		panic(fmt.Sprintf("term: bad width %d", w))
	}
	return b.mk(OConst, uint8(w), nil, nil, nil, v&mask(w), "")
}

func (b *B) Bool(v bool) *T {
	if v {
		return b.True
	}
	return b.False
}

func (b *B) Var(name string, w int) *T {
	return b.mk(OVar, uint8(w), nil, nil, nil, 0, name)
}

func (b *B) ArrVar(name string) *T {
	return b.mk(OArrVar, ArrW, nil, nil, nil, 0, name)
}

func (b *B) UF(name string, w int, args ...*T) *T {
	var sb strings.Builder
	sb.WriteString(name)
	for _, a := range args {
		fmt.Fprintf(&sb, ",%d", a.ID)
	}
	k := key{OUF, uint8(w), 0, 0, 0, 0, sb.String()}
	if t, ok := b.tab[k]; ok {
		return t
	}
	b.next++
	sz := uint32(1)
	for _, a := range args {
		sz += a.size
	}
	t := &T{Op: OUF, W: uint8(w), Name: name, Args: append([]*T(nil), args...), ID: b.next, size: sz}
	b.tab[k] = t
	return t
}

// ---------- evaluation of concrete ops ----------

func evalBin(op Op, w int, x, y uint64) (uint64, bool) {
	m := mask(w)
	switch op {
	case OAdd:
		return (x + y) & m, true
	case OSub:
		return (x - y) & m, true
	case OMul:
		return (x * y) & m, true
	case OUDiv:
		if y == 0 {
			return m, true
		}
		return x / y, true
	case OURem:
		if y == 0 {
			return x, true
		}
		return x % y, true
	case OSDiv:
		sx, sy := signExt(x, w), signExt(y, w)
		if sy == 0 {
			if sx < 0 {
				return 1, true
			}
			return m, true
		}
		if sy == -1 {
			return uint64(-sx) & m, true
		}
		return uint64(sx/sy) & m, true
	case OSRem:
		sx, sy := signExt(x, w), signExt(y, w)
		if sy == 0 {
			return x, true
		}
		if sy == -1 {
			return 0, true
		}
		return uint64(sx%sy) & m, true
	case OAnd:
		return x & y, true
	case OOr:
		return x | y, true
	case OXor:
		return x ^ y, true
	case OShl:
		if y >= uint64(w) {
			return 0, true
		}
		return (x << y) & m, true
	case OLShr:
		if y >= uint64(w) {
			return 0, true
		}
		return x >> y, true
	case OAShr:
		sx := signExt(x, w)
		if y >= uint64(w) {
			if sx < 0 {
				return m, true
			}
			return 0, true
		}
		return uint64(sx>>y) & m, true
	}
	return 0, false
}

func evalCmp(op Op, w int, x, y uint64) bool {
	switch op {
	case OEq:
		return x == y
	case OUlt:
		return x < y
	case OUle:
		return x <= y
	case OSlt:
		return signExt(x, w) < signExt(y, w)
	case OSle:
		return signExt(x, w) <= signExt(y, w)
	}
	panic("evalCmp")
}

func commutative(op Op) bool {
	switch op {
	case OAdd, OMul, OAnd, OOr, OXor, OEq, OBAnd, OBOr:
		return true
	}
	return false
}

// constLeaves reports whether t is an ite-DAG with only constant leaves and at
// most max distinct nodes.
func constLeaves(t *T, max int) (int, bool) {
	if t.IsConst() {
		return 1, true
	}
	if t.Op != OIte {
		return 0, false
	}
	seen := map[*T]bool{}
	ok := true
	var walk func(x *T)
	walk = func(x *T) {
		if !ok || seen[x] {
			return
		}
		seen[x] = true
		if len(seen) > max {
			ok = false
			return
		}
		if x.IsConst() {
			return
		}
		if x.Op != OIte {
			ok = false
			return
		}
		walk(x.B)
		walk(x.C)
	}
	walk(t)
	return len(seen), ok
}

func (b *B) mapLeaves(t *T, f func(*T) *T) *T {
	memo := map[*T]*T{}
	var rec func(x *T) *T
	rec = func(x *T) *T {
		if r, ok := memo[x]; ok {
			return r
		}
		var r *T
		if x.Op == OIte {
			r = b.Ite(x.A, rec(x.B), rec(x.C))
		} else {
			r = f(x)
		}
		memo[x] = r
		return r
	}
	return rec(t)
}

// caseTree returns x in lifted form (an ite-DAG with constant leaves) when x is
// such a DAG possibly under zero/sign extensions; ok=false otherwise.
func (b *B) caseTree(x *T) (*T, bool) {
	switch x.Op {
	case OIte:
		if _, ok := constLeaves(x, liftMax); ok {
			return x, true
		}
	case OZExt:
		if in, ok := b.caseTree(x.A); ok {
			w := int(x.W)
			return b.mapLeaves(in, func(l *T) *T { return b.ZExt(l, w) }), true
		}
	case OSExt:
		if in, ok := b.caseTree(x.A); ok {
			w := int(x.W)
			return b.mapLeaves(in, func(l *T) *T { return b.SExt(l, w) }), true
		}
	}
	return nil, false
}

const liftMax = 600

// Bin builds a binary bit-vector operation (operands must have equal width).
func (b *B) Bin(op Op, x, y *T) *T {
	if x.W != y.W {
		panic(fmt.Sprintf("term: width mismatch %s: %d vs %d", opNames[op], x.W, y.W))
	}
	w := int(x.W)
	if x.Op == OConst && y.Op == OConst {
		if v, ok := evalBin(op, w, x.V, y.V); ok {
			return b.Const(w, v)
		}
	}
	if commutative(op) && (x.Op == OConst || (y.Op != OConst && x.ID > y.ID)) {
		x, y = y, x // constants to the right, otherwise by id
	}
	if !b.NoSimp {
		if y.Op == OConst {
			switch op {
			case OAdd, OSub, OOr, OXor, OShl, OLShr, OAShr:
				if y.V == 0 {
					return x
				}
			case OMul:
				if y.V == 0 {
					return y
				}
				if y.V == 1 {
					return x
				}
			case OAnd:
				if y.V == 0 {
					return y
				}
				if y.V == mask(w) {
					return x
				}
			case OUDiv, OSDiv:
				if y.V == 1 {
					return x
				}
			}
			if op == OOr && y.V == mask(w) {
				return y
			}
			// (x op k1) op k2 for associative ops
			if (op == OAdd || op == OXor || op == OAnd || op == OOr) && x.Op == op && x.B.Op == OConst {
				v, _ := evalBin(op, w, x.B.V, y.V)
				return b.Bin(op, x.A, b.Const(w, v))
			}
			if ct, ok := b.caseTree(x); ok {
				return b.mapLeaves(ct, func(l *T) *T { return b.Bin(op, l, y) })
			}
		}
		if x.Op == OConst && !commutative(op) {
			if x.V == 0 && (op == OShl || op == OLShr || op == OAShr) {
				return x
			}
			if ct, ok := b.caseTree(y); ok {
				return b.mapLeaves(ct, func(l *T) *T { return b.Bin(op, x, l) })
			}
		}
		if x == y {
			switch op {
			case OXor, OSub:
				return b.Const(w, 0)
			case OAnd, OOr:
				return x
			}
		}
		// (sext(a) * c) / c -> sext(a), (sext(a) * c) % c -> 0 when the product cannot overflow
		if (op == OSDiv || op == OSRem) && y.Op == OConst && x.Op == OMul && x.B == y && x.A.Op == OSExt && x.A.A.W <= 32 && w == 64 {
			c := signExt(y.V, w)
			if c != 0 && c > -(1<<31) && c < (1<<31) {
				if op == OSDiv {
					return x.A
				}
				return b.Const(w, 0)
			}
		}
		// same for a zero-extended factor: zext(a) * c with a of at most 32 bits and 0 < c < 2^31
		// stays below 2^63, so signed and unsigned division by c give zext(a) back, remainder 0
		if (op == OSDiv || op == OSRem || op == OUDiv || op == OURem) && y.Op == OConst && x.Op == OMul && x.B == y && x.A.Op == OZExt && x.A.A.W <= 32 && w == 64 {
			if y.V > 0 && y.V < (1<<31) {
				if op == OSDiv || op == OUDiv {
					return x.A
				}
				return b.Const(w, 0)
			}
		}
		// (a-b)+b -> a
		if op == OAdd {
			if x.Op == OSub && x.B == y {
				return x.A
			}
			if y.Op == OSub && y.B == x {
				return y.A
			}
		}
		// (a+b)-b -> a ; (a^b)^b -> a
		if op == OSub && x.Op == OAdd {
			if x.B == y {
				return x.A
			}
			if x.A == y {
				return x.B
			}
		}
		if op == OXor && (x.Op == OXor || y.Op == OXor) {
			// AC-normalise small xor chains: flatten, cancel equal operands, fold constants
			var leaves []*T
			var collect func(t *T, d int) bool
			collect = func(t *T, d int) bool {
				if t.Op == OXor && d < 6 {
					return collect(t.A, d+1) && collect(t.B, d+1)
				}
				leaves = append(leaves, t)
				return len(leaves) <= 12
			}
			if collect(x, 0) && collect(y, 0) {
				cnt := map[*T]int{}
				var order []*T
				var cst uint64
				for _, l := range leaves {
					if l.Op == OConst {
						cst ^= l.V
						continue
					}
					if cnt[l] == 0 {
						order = append(order, l)
					}
					cnt[l]++
				}
				var keep []*T
				cancelled := false
				for _, l := range order {
					if cnt[l]%2 == 1 {
						keep = append(keep, l)
					}
					if cnt[l] > 1 {
						cancelled = true
					}
				}
				if cancelled {
					// rebuild in id order
					for i := 1; i < len(keep); i++ {
						for j := i; j > 0 && keep[j].ID < keep[j-1].ID; j-- {
							keep[j], keep[j-1] = keep[j-1], keep[j]
						}
					}
					var r *T
					for _, l := range keep {
						if r == nil {
							r = l
						} else {
							r = b.Bin(OXor, r, l)
						}
					}
					if r == nil {
						return b.Const(w, cst)
					}
					if cst != 0 {
						r = b.Bin(OXor, r, b.Const(w, cst))
					}
					return r
				}
			}
		}
		if op == OXor {
			if x.Op == OXor {
				if x.B == y {
					return x.A
				}
				if x.A == y {
					return x.B
				}
			}
			if y.Op == OXor {
				if y.B == x {
					return y.A
				}
				if y.A == x {
					return y.B
				}
			}
		}
	}
	if !b.NoSimp && (op == OOr || op == OAdd || op == OXor) && (segShape(x) || segShape(y)) && (segShape(x) || x.Op == OConst || x.Op == OExtract || x.Op == OVar) && (segShape(y) || y.Op == OExtract || y.Op == OVar) {
		if r, ok := b.mergeDisjoint(x, y); ok {
			return r
		}
	}
	if !b.NoSimp && (op == OShl || op == OLShr) && y.Op == OConst && (segShape(x) || x.Op == OExtract) && y.V < uint64(w) {
		t := b.mk(op, uint8(w), x, y, nil, 0, "")
		return b.normalizeShape(t)
	}
	if !b.NoSimp && op == OAnd && y.Op == OConst {
		// mask with a contiguous run of ones: zero-extended extract
		m := y.V
		if m != 0 {
			lo := bits.TrailingZeros64(m)
			run := m >> uint(lo)
			if run&(run+1) == 0 { // contiguous
				hi := lo + bits.Len64(run) - 1
				if hi < w {
					e := b.Extract(x, hi, lo)
					var r *T = e
					if hi < w-1 {
						r = b.ZExt(e, w-lo)
					}
					if lo > 0 {
						r = b.Concat(r, b.Const(lo, 0))
					}
					return r
				}
			}
		}
	}
	return b.mk(op, uint8(w), x, y, nil, 0, "")
}

func (b *B) Add(x, y *T) *T { return b.Bin(OAdd, x, y) }
func (b *B) Sub(x, y *T) *T { return b.Bin(OSub, x, y) }
func (b *B) Xor(x, y *T) *T { return b.Bin(OXor, x, y) }
func (b *B) And(x, y *T) *T { return b.Bin(OAnd, x, y) }
func (b *B) Or(x, y *T) *T  { return b.Bin(OOr, x, y) }

func (b *B) Not(x *T) *T {
	if x.Op == OConst {
		return b.Const(int(x.W), ^x.V)
	}
	if x.Op == ONot {
		return x.A
	}
	return b.mk(ONot, x.W, x, nil, nil, 0, "")
}

func (b *B) Neg(x *T) *T {
	if x.Op == OConst {
		return b.Const(int(x.W), -x.V)
	}
	return b.mk(ONeg, x.W, x, nil, nil, 0, "")
}

// Cmp builds a comparison (OEq, OUlt, OUle, OSlt, OSle).
func (b *B) Cmp(op Op, x, y *T) *T {
	if x.W != y.W {
		panic(fmt.Sprintf("term: cmp width mismatch %d vs %d", x.W, y.W))
	}
	if x.W == 0 { // bool equality
		if op != OEq {
			panic("term: ordered compare on bool")
		}
		return b.BEq(x, y)
	}
	w := int(x.W)
	if x.Op == OConst && y.Op == OConst {
		return b.Bool(evalCmp(op, w, x.V, y.V))
	}
	if x == y {
		return b.Bool(op == OEq || op == OUle || op == OSle)
	}
	if op == OEq && (x.Op == OConst || (y.Op != OConst && x.ID > y.ID)) {
		x, y = y, x
	}
	if !b.NoSimp {
		if y.Op == OConst {
			if ct, ok := b.caseTree(x); ok {
				return b.mapLeaves(ct, func(l *T) *T { return b.Cmp(op, l, y) })
			}
			if op == OEq {
				// zext(a) == k
				if x.Op == OZExt {
					if y.V > mask(int(x.A.W)) {
						return b.False
					}
					return b.Cmp(OEq, x.A, b.Const(int(x.A.W), y.V))
				}
				// (a ^ k1) == k2 -> a == k1^k2 ; (a + k1) == k2 -> a == k2-k1
				if x.Op == OXor && x.B.Op == OConst {
					return b.Cmp(OEq, x.A, b.Const(w, x.B.V^y.V))
				}
				if x.Op == OAdd && x.B.Op == OConst {
					return b.Cmp(OEq, x.A, b.Const(w, y.V-x.B.V))
				}
				if x.Op == OConcat {
					lo := int(x.B.W)
					return b.BAnd(b.Cmp(OEq, x.A, b.Const(int(x.A.W), y.V>>uint(lo))), b.Cmp(OEq, x.B, b.Const(lo, y.V)))
				}
			}
			if op == OUlt && y.V == 0 {
				return b.False
			}
			if op == OUle && y.V == mask(w) {
				return b.True
			}
			if (op == OUlt || op == OUle) && x.Op == OZExt {
				if y.V > mask(int(x.A.W)) {
					return b.True
				}
				return b.Cmp(op, x.A, b.Const(int(x.A.W), y.V))
			}
		}
		if x.Op == OConst {
			if ct, ok := b.caseTree(y); ok {
				return b.mapLeaves(ct, func(l *T) *T { return b.Cmp(op, x, l) })
			}
			if op == OUle && x.V == 0 {
				return b.True
			}
			if op == OUlt && x.V == mask(w) {
				return b.False
			}
		}
	}
	return b.mk(op, 0, x, y, nil, 0, "")
}

func (b *B) Eq(x, y *T) *T { return b.Cmp(OEq, x, y) }

func (b *B) BEq(x, y *T) *T {
	if x == y {
		return b.True
	}
	if x.IsConst() {
		x, y = y, x
	}
	if y.IsTrue() {
		return x
	}
	if y.IsFalse() {
		return b.BNot(x)
	}
	if x.ID > y.ID {
		x, y = y, x
	}
	return b.mk(OEq, 0, x, y, nil, 0, "")
}

func (b *B) BNot(x *T) *T {
	switch x.Op {
	case OTrue:
		return b.False
	case OFalse:
		return b.True
	case OBNot:
		return x.A
	}
	return b.mk(OBNot, 0, x, nil, nil, 0, "")
}

func (b *B) BAnd(x, y *T) *T {
	if x.IsFalse() || y.IsFalse() {
		return b.False
	}
	if x.IsTrue() {
		return y
	}
	if y.IsTrue() {
		return x
	}
	if x == y {
		return x
	}
	if x.ID > y.ID {
		x, y = y, x
	}
	if (x.Op == OBNot && x.A == y) || (y.Op == OBNot && y.A == x) {
		return b.False
	}
	return b.mk(OBAnd, 0, x, y, nil, 0, "")
}

func (b *B) BOr(x, y *T) *T {
	if x.IsTrue() || y.IsTrue() {
		return b.True
	}
	if x.IsFalse() {
		return y
	}
	if y.IsFalse() {
		return x
	}
	if x == y {
		return x
	}
	if x.ID > y.ID {
		x, y = y, x
	}
	if (x.Op == OBNot && x.A == y) || (y.Op == OBNot && y.A == x) {
		return b.True
	}
	return b.mk(OBOr, 0, x, y, nil, 0, "")
}

// Assume records that c holds on the current path.
func (b *B) Assume(c *T) {
	if b.Known == nil {
		b.Known = map[*T]bool{}
	}
	switch c.Op {
	case OBNot:
		b.Known[c.A] = false
	case OBAnd:
		b.Known[c] = true
		b.Assume(c.A)
		b.Assume(c.B)
	default:
		b.Known[c] = true
	}
}

// Decided reports whether c is already known on the current path.
func (b *B) Decided(c *T) (val, ok bool) {
	if c.IsTrue() {
		return true, true
	}
	if c.IsFalse() {
		return false, true
	}
	if b.Known == nil {
		return false, false
	}
	if c.Op == OBNot {
		v, ok := b.Known[c.A]
		return !v, ok
	}
	v, ok := b.Known[c]
	return v, ok
}

func (b *B) Ite(c, x, y *T) *T {
	if c.IsTrue() {
		return x
	}
	if c.IsFalse() {
		return y
	}
	if v, ok := b.Decided(c); ok {
		if v {
			return x
		}
		return y
	}
	if x == y {
		return x
	}
	if x.W != y.W {
		panic(fmt.Sprintf("term: ite width mismatch %d vs %d", x.W, y.W))
	}
	if x.W == 0 {
		if x.IsTrue() && y.IsFalse() {
			return c
		}
		if x.IsFalse() && y.IsTrue() {
			return b.BNot(c)
		}
		if x.IsTrue() {
			return b.BOr(c, y)
		}
		if x.IsFalse() {
			return b.BAnd(b.BNot(c), y)
		}
		if y.IsTrue() {
			return b.BOr(b.BNot(c), x)
		}
		if y.IsFalse() {
			return b.BAnd(c, x)
		}
	}
	if c.Op == OBNot {
		return b.Ite(c.A, y, x)
	}
	// ite(c, ite(c, a, _), b) -> ite(c,a,b)
	if x.Op == OIte && x.A == c {
		x = x.B
	}
	if y.Op == OIte && y.A == c {
		y = y.C
	}
	if x == y {
		return x
	}
	return b.mk(OIte, x.W, c, x, y, 0, "")
}

func (b *B) Extract(x *T, hi, lo int) *T {
	w := int(x.W)
	if hi >= w || lo < 0 || hi < lo {
		panic(fmt.Sprintf("term: bad extract [%d:%d] of %d", hi, lo, w))
	}
	if lo == 0 && hi == w-1 {
		return x
	}
	nw := hi - lo + 1
	switch x.Op {
	case OConst:
		return b.Const(nw, x.V>>uint(lo))
	case OConcat:
		lw := int(x.B.W)
		if hi < lw {
			return b.Extract(x.B, hi, lo)
		}
		if lo >= lw {
			return b.Extract(x.A, hi-lw, lo-lw)
		}
		if !b.NoSimp {
			return b.Concat(b.Extract(x.A, hi-lw, 0), b.Extract(x.B, lw-1, lo))
		}
	case OZExt:
		aw := int(x.A.W)
		if hi < aw {
			return b.Extract(x.A, hi, lo)
		}
		if lo >= aw {
			return b.Const(nw, 0)
		}
		return b.ZExt(b.Extract(x.A, aw-1, lo), nw)
	case OSExt:
		aw := int(x.A.W)
		if hi < aw {
			return b.Extract(x.A, hi, lo)
		}
	case OExtract:
		l0 := int(x.V & 0xff)
		return b.Extract(x.A, hi+l0, lo+l0)
	case OLShr:
		if !b.NoSimp && x.B.Op == OConst && x.B.V < uint64(w) {
			k := int(x.B.V)
			if hi+k < w {
				return b.Extract(x.A, hi+k, lo+k)
			}
			if lo+k >= w {
				return b.Const(nw, 0)
			}
			return b.ZExt(b.Extract(x.A, w-1, lo+k), nw)
		}
	case OShl:
		if !b.NoSimp && x.B.Op == OConst && x.B.V < uint64(w) {
			k := int(x.B.V)
			if lo >= k {
				return b.Extract(x.A, hi-k, lo-k)
			}
			if hi < k {
				return b.Const(nw, 0)
			}
			return b.Concat(b.Extract(x.A, hi-k, 0), b.Const(k-lo, 0))
		}
	case OIte:
		if _, ok := constLeaves(x, liftMax); ok {
			return b.mapLeaves(x, func(l *T) *T { return b.Extract(l, hi, lo) })
		}
	case OAnd, OOr, OXor:
		if !b.NoSimp && lo == 0 && (x.A.Op == OZExt || x.B.Op == OZExt || x.B.Op == OConst) {
			return b.Bin(x.Op, b.Extract(x.A, hi, lo), b.Extract(x.B, hi, lo))
		}
	case OAdd, OSub, OMul:
		// low bits of modular arithmetic depend only on low bits
		if !b.NoSimp && lo == 0 && (x.A.Op == OZExt || x.A.Op == OSExt) && (x.B.Op == OZExt || x.B.Op == OSExt || x.B.Op == OConst) {
			return b.Bin(x.Op, b.Extract(x.A, hi, lo), b.Extract(x.B, hi, lo))
		}
	}
	return b.mk(OExtract, uint8(nw), x, nil, nil, uint64(hi)<<8|uint64(lo), "")
}

func (b *B) ZExt(x *T, w int) *T {
	if int(x.W) == w {
		return x
	}
	if int(x.W) > w {
		panic("term: zext to smaller")
	}
	if x.Op == OConst {
		return b.Const(w, x.V)
	}
	if x.Op == OZExt {
		return b.ZExt(x.A, w)
	}
	return b.mk(OZExt, uint8(w), x, nil, nil, 0, "")
}

func (b *B) SExt(x *T, w int) *T {
	if int(x.W) == w {
		return x
	}
	if int(x.W) > w {
		panic("term: sext to smaller")
	}
	if x.Op == OConst {
		return b.Const(w, uint64(signExt(x.V, int(x.W))))
	}
	if x.Op == OZExt { // zero-extended value is non-negative
		return b.ZExt(x.A, w)
	}
	return b.mk(OSExt, uint8(w), x, nil, nil, 0, "")
}

func (b *B) Concat(hi, lo *T) *T {
	w := int(hi.W) + int(lo.W)
	if w > 64 {
		panic("term: concat too wide")
	}
	if hi.Op == OConst && lo.Op == OConst {
		return b.Const(w, hi.V<<uint(lo.W)|lo.V)
	}
	if hi.Op == OConst && hi.V == 0 {
		return b.ZExt(lo, w)
	}
	// concat(extract(x,h,m+1), extract(x,m,l)) -> extract(x,h,l)
	if hi.Op == OExtract && lo.Op == OExtract && hi.A == lo.A {
		hl := int(hi.V & 0xff)
		lh := int(lo.V >> 8)
		if hl == lh+1 {
			return b.Extract(hi.A, int(hi.V>>8), int(lo.V&0xff))
		}
	}
	return b.mk(OConcat, uint8(w), hi, lo, nil, 0, "")
}

func (b *B) Select(arr, idx *T) *T {
	// read-over-write with syntactically equal / distinct constant indexes
	for arr.Op == OStore {
		if arr.B == idx {
			return arr.C
		}
		if arr.B.Op == OConst && idx.Op == OConst {
			arr = arr.A
			continue
		}
		break
	}
	return b.mk(OSelect, 8, arr, idx, nil, 0, "")
}

func (b *B) Store(arr, idx, val *T) *T {
	return b.mk(OStore, ArrW, arr, idx, val, 0, "")
}

// ---------- concrete evaluation under a model ----------

// Eval evaluates t under the assignment (variables by name; missing = 0).
// UFs and arrays are not supported (returns ok=false).
func Eval(t *T, m map[string]uint64, memo map[*T]uint64) (uint64, bool) {
	if v, ok := memo[t]; ok {
		return v, true
	}
	var r uint64
	ok := true
	ev := func(x *T) uint64 {
		v, k := Eval(x, m, memo)
		if !k {
			ok = false
		}
		return v
	}
	bv := func(c bool) uint64 {
		if c {
			return 1
		}
		return 0
	}
	switch t.Op {
	case OConst:
		r = t.V
	case OTrue:
		r = 1
	case OFalse:
		r = 0
	case OVar:
		r = m[t.Name]
		if t.W > 0 {
			r &= mask(int(t.W))
		} else {
			r &= 1
		}
	case OAdd, OSub, OMul, OUDiv, OURem, OSDiv, OSRem, OAnd, OOr, OXor, OShl, OLShr, OAShr:
		r, _ = evalBin(t.Op, int(t.W), ev(t.A), ev(t.B))
	case ONot:
		r = ^ev(t.A) & mask(int(t.W))
	case ONeg:
		r = -ev(t.A) & mask(int(t.W))
	case OConcat:
		r = ev(t.A)<<uint(t.B.W) | ev(t.B)
	case OExtract:
		r = (ev(t.A) >> uint(t.V&0xff)) & mask(int(t.W))
	case OZExt:
		r = ev(t.A)
	case OSExt:
		r = uint64(signExt(ev(t.A), int(t.A.W))) & mask(int(t.W))
	case OEq:
		r = bv(ev(t.A) == ev(t.B))
	case OUlt, OUle, OSlt, OSle:
		r = bv(evalCmp(t.Op, int(t.A.W), ev(t.A), ev(t.B)))
	case OIte:
		if ev(t.A) != 0 {
			r = ev(t.B)
		} else {
			r = ev(t.C)
		}
	case OBNot:
		r = 1 - ev(t.A)
	case OBAnd:
		r = ev(t.A) & ev(t.B)
	case OBOr:
		r = ev(t.A) | ev(t.B)
	default:
		return 0, false
	}
	if !ok {
		return 0, false
	}
	memo[t] = r
	return r, true
}

// Vars collects the free variables of t.
func Vars(t *T, seen map[*T]bool, out map[string]*T) {
	if t == nil || seen[t] {
		return
	}
	seen[t] = true
	if t.Op == OVar || t.Op == OArrVar {
		out[t.Name] = t
		return
	}
	Vars(t.A, seen, out)
	Vars(t.B, seen, out)
	Vars(t.C, seen, out)
	for _, a := range t.Args {
		Vars(a, seen, out)
	}
}

// ---------- printing ----------

func sortOf(t *T) string {
	if t.W == 0 {
		return "Bool"
	}
	if t.W == ArrW {
		return "(Array (_ BitVec 64) (_ BitVec 8))"
	}
	return fmt.Sprintf("(_ BitVec %d)", t.W)
}

func constStr(w int, v uint64) string {
	if w%4 == 0 {
		return fmt.Sprintf("#x%0*x", w/4, v)
	}
	return fmt.Sprintf("#b%0*b", w, v)
}

// Printer emits SMT-LIB2 with sharing: every compound node is introduced once
// per solver scope with define-fun. Scopes mirror the solver's push/pop.
type Printer struct {
	defined map[uint32]string
	scopes  []scope
	cur     scope
	Out     *strings.Builder
	ufs     map[string]bool
	vars    map[string]bool
}

type scope struct {
	ids  []uint32
	ufs  []string
	vars []string
}

func NewPrinter() *Printer {
	return &Printer{defined: map[uint32]string{}, Out: &strings.Builder{}, ufs: map[string]bool{}, vars: map[string]bool{}}
}

func (p *Printer) Push() {
	p.scopes = append(p.scopes, p.cur)
	p.cur = scope{}
}

func (p *Printer) Pop() {
	for _, id := range p.cur.ids {
		delete(p.defined, id)
	}
	for _, u := range p.cur.ufs {
		delete(p.ufs, u)
	}
	for _, n := range p.cur.vars {
		delete(p.vars, n)
	}
	p.cur = p.scopes[len(p.scopes)-1]
	p.scopes = p.scopes[:len(p.scopes)-1]
}

func (p *Printer) Reset() {
	p.defined = map[uint32]string{}
	p.scopes = nil
	p.cur = scope{}
	p.ufs = map[string]bool{}
	p.vars = map[string]bool{}
}

func symName(s string) string {
	return "|" + strings.NewReplacer("|", "_", "\\", "_").Replace(s) + "|"
}

// Ref returns the SMT-LIB reference for t, emitting any needed declarations
// and definitions to p.Out first.
func (p *Printer) Ref(t *T) string {
	switch t.Op {
	case OConst:
		return constStr(int(t.W), t.V)
	case OTrue:
		return "true"
	case OFalse:
		return "false"
	}
	if n, ok := p.defined[t.ID]; ok {
		return n
	}
	var name string
	switch t.Op {
	case OVar, OArrVar:
		// variables are identified by name (term ids differ between per-path builders)
		name = symName(t.Name)
		if !p.vars[t.Name] {
			p.vars[t.Name] = true
			p.cur.vars = append(p.cur.vars, t.Name)
			fmt.Fprintf(p.Out, "(declare-const %s %s)\n", name, sortOf(t))
		}
		return name
	default:
		var body string
		switch t.Op {
		case OExtract:
			body = fmt.Sprintf("((_ extract %d %d) %s)", t.V>>8, t.V&0xff, p.Ref(t.A))
		case OZExt:
			body = fmt.Sprintf("((_ zero_extend %d) %s)", int(t.W)-int(t.A.W), p.Ref(t.A))
		case OSExt:
			body = fmt.Sprintf("((_ sign_extend %d) %s)", int(t.W)-int(t.A.W), p.Ref(t.A))
		case OUF:
			un := symName("uf!" + t.Name)
			if !p.ufs[t.Name] {
				p.ufs[t.Name] = true
				var sb strings.Builder
				for _, a := range t.Args {
					sb.WriteString(sortOf(a) + " ")
				}
				fmt.Fprintf(p.Out, "(declare-fun %s (%s) %s)\n", un, sb.String(), sortOf(t))
				p.cur.ufs = append(p.cur.ufs, t.Name)
			}
			var sb strings.Builder
			sb.WriteString("(" + un)
			for _, a := range t.Args {
				sb.WriteString(" " + p.Ref(a))
			}
			sb.WriteString(")")
			body = sb.String()
			if len(t.Args) == 0 {
				body = un
			}
		default:
			on, ok := opNames[t.Op]
			if !ok {
				panic(fmt.Sprintf("term: print op %d", t.Op))
			}
			var sb strings.Builder
			sb.WriteString("(" + on)
			for _, c := range []*T{t.A, t.B, t.C} {
				if c != nil {
					sb.WriteString(" " + p.Ref(c))
				}
			}
			sb.WriteString(")")
			body = sb.String()
		}
		if t.size <= 3 { // small: inline
			return body
		}
		name = fmt.Sprintf("t%d", t.ID)
		fmt.Fprintf(p.Out, "(define-fun %s () %s %s)\n", name, sortOf(t), body)
	}
	p.defined[t.ID] = name
	p.cur.ids = append(p.cur.ids, t.ID)
	return name
}

// Sprint renders t as a (possibly exponential) tree; for diagnostics only.
func Sprint(t *T) string {
	var sb strings.Builder
	sprint(&sb, t, 0)
	return sb.String()
}

func sprint(sb *strings.Builder, t *T, depth int) {
	if depth > 12 {
		sb.WriteString("…")
		return
	}
	switch t.Op {
	case OConst:
		fmt.Fprintf(sb, "%d:%d", t.V, t.W)
		return
	case OTrue:
		sb.WriteString("true")
		return
	case OFalse:
		sb.WriteString("false")
		return
	case OVar, OArrVar:
		sb.WriteString(t.Name)
		return
	case OExtract:
		fmt.Fprintf(sb, "(extract %d %d ", t.V>>8, t.V&0xff)
		sprint(sb, t.A, depth+1)
		sb.WriteString(")")
		return
	case OZExt, OSExt:
		if t.Op == OZExt {
			fmt.Fprintf(sb, "(zext%d ", t.W)
		} else {
			fmt.Fprintf(sb, "(sext%d ", t.W)
		}
		sprint(sb, t.A, depth+1)
		sb.WriteString(")")
		return
	case OUF:
		sb.WriteString("(" + t.Name)
		for _, a := range t.Args {
			sb.WriteString(" ")
			sprint(sb, a, depth+1)
		}
		sb.WriteString(")")
		return
	}
	sb.WriteString("(" + opNames[t.Op])
	for _, c := range []*T{t.A, t.B, t.C} {
		if c != nil {
			sb.WriteString(" ")
			sprint(sb, c, depth+1)
		}
	}
	sb.WriteString(")")
}

var _ = bits.Len64
