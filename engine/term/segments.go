package term

// Bit-segment normalisation: terms built by byte splitting and reassembly
// (x>>24, byte(x), uint32(b)<<8 | ..., zero-extension) are rewritten into
// concat/extract form so that split-then-join collapses to the original term.

type seg struct {
	t *T // nil = zero bits
	w int
}

func segShape(t *T) bool {
	switch t.Op {
	case OZExt, OConcat:
		return true
	case OShl, OLShr:
		return t.B.Op == OConst
	}
	return false
}

// segments decomposes t (MSB first). depth-limited.
func (b *B) segments(t *T, depth int) []seg {
	w := int(t.W)
	if depth > 8 {
		return []seg{{t, w}}
	}
	switch t.Op {
	case OConst:
		if t.V == 0 {
			return []seg{{nil, w}}
		}
	case OZExt:
		return append([]seg{{nil, w - int(t.A.W)}}, b.segments(t.A, depth+1)...)
	case OConcat:
		return append(b.segments(t.A, depth+1), b.segments(t.B, depth+1)...)
	case OShl:
		if t.B.Op == OConst {
			k := int(t.B.V)
			if t.B.V >= uint64(w) {
				return []seg{{nil, w}}
			}
			if k == 0 {
				return b.segments(t.A, depth+1)
			}
			s := b.segments(t.A, depth+1)
			s = dropTop(b, s, k)
			return append(s, seg{nil, k})
		}
	case OLShr:
		if t.B.Op == OConst {
			k := int(t.B.V)
			if t.B.V >= uint64(w) {
				return []seg{{nil, w}}
			}
			if k == 0 {
				return b.segments(t.A, depth+1)
			}
			s := b.segments(t.A, depth+1)
			s = dropBottom(b, s, k)
			return append([]seg{{nil, k}}, s...)
		}
	}
	return []seg{{t, w}}
}

func dropTop(b *B, s []seg, k int) []seg {
	for k > 0 && len(s) > 0 {
		if s[0].w <= k {
			k -= s[0].w
			s = s[1:]
			continue
		}
		h := s[0]
		nw := h.w - k
		var nt *T
		if h.t != nil {
			nt = b.Extract(h.t, nw-1, 0)
		}
		s = append([]seg{{nt, nw}}, s[1:]...)
		k = 0
	}
	return s
}

func dropBottom(b *B, s []seg, k int) []seg {
	for k > 0 && len(s) > 0 {
		l := s[len(s)-1]
		if l.w <= k {
			k -= l.w
			s = s[:len(s)-1]
			continue
		}
		nw := l.w - k
		var nt *T
		if l.t != nil {
			nt = b.Extract(l.t, l.w-1, k)
		}
		s = append(append([]seg{}, s[:len(s)-1]...), seg{nt, nw})
		k = 0
	}
	return s
}

// splitAt returns the segment list refined so that a boundary exists at every
// position in cuts (positions counted from the LSB).
func (b *B) refine(s []seg, cuts map[int]bool, w int) []seg {
	var out []seg
	pos := w // bits remaining below the current segment's top
	for _, sg := range s {
		top := pos
		bot := pos - sg.w
		// cut points strictly inside (bot, top)
		last := top
		for c := top - 1; c > bot; c-- {
			if cuts[c] {
				// piece [c, last)
				pw := last - c
				var pt *T
				if sg.t != nil {
					pt = b.Extract(sg.t, last-bot-1, c-bot)
				}
				out = append(out, seg{pt, pw})
				last = c
			}
		}
		pw := last - bot
		var pt *T
		if sg.t != nil {
			if pw == sg.w {
				pt = sg.t
			} else {
				pt = b.Extract(sg.t, last-bot-1, 0)
			}
		}
		out = append(out, seg{pt, pw})
		pos = bot
	}
	return out
}

func boundaries(s []seg, w int, cuts map[int]bool) {
	pos := w
	for _, sg := range s {
		pos -= sg.w
		cuts[pos] = true
	}
}

func (b *B) fromSegs(s []seg) *T {
	// merge neighbouring zero runs and adjacent extracts of one source
	var m []seg
	for _, sg := range s {
		if sg.w == 0 {
			continue
		}
		if len(m) > 0 {
			l := &m[len(m)-1]
			if l.t == nil && sg.t == nil {
				l.w += sg.w
				continue
			}
			if l.t != nil && sg.t != nil && l.w+sg.w <= 64 {
				ls, lh, ll := extractOf(l.t)
				rs, rh, rl := extractOf(sg.t)
				if ls == rs && ll == rh+1 {
					l.t = b.Extract(ls, lh, rl)
					l.w += sg.w
					continue
				}
			}
		}
		m = append(m, sg)
	}
	s = m
	var res *T
	for _, sg := range s {
		var p *T
		if sg.t == nil {
			p = b.Const(sg.w, 0)
		} else {
			p = sg.t
		}
		if res == nil {
			res = p
		} else {
			res = b.Concat(res, p)
		}
	}
	return res
}

// mergeDisjoint tries to compute x|y (== x+y == x^y) when their non-zero
// segments are disjoint. ok=false if they overlap.
func (b *B) mergeDisjoint(x, y *T) (*T, bool) {
	w := int(x.W)
	sx := b.segments(x, 0)
	sy := b.segments(y, 0)
	if len(sx) == 1 && sx[0].t != nil && len(sy) == 1 && sy[0].t != nil {
		return nil, false
	}
	cuts := map[int]bool{}
	boundaries(sx, w, cuts)
	boundaries(sy, w, cuts)
	sx = b.refine(sx, cuts, w)
	sy = b.refine(sy, cuts, w)
	if len(sx) != len(sy) {
		return nil, false
	}
	out := make([]seg, len(sx))
	for i := range sx {
		if sx[i].w != sy[i].w {
			return nil, false
		}
		switch {
		case sx[i].t == nil:
			out[i] = sy[i]
		case sy[i].t == nil:
			out[i] = sx[i]
		default:
			return nil, false
		}
	}
	return b.fromSegs(out), true
}

// normalizeShape rewrites a shift/zext-shaped term into concat form when that
// exposes structure (used for Shl/LShr by constants of segment-shaped operands).
func (b *B) normalizeShape(t *T) *T {
	s := b.segments(t, 0)
	if len(s) == 1 && s[0].t == t {
		return t
	}
	return b.fromSegs(s)
}

// extractOf views t as extract(src, hi, lo) (a whole term is extract(t, w-1, 0)).
func extractOf(t *T) (*T, int, int) {
	if t.Op == OExtract {
		return t.A, int(t.V >> 8), int(t.V & 0xff)
	}
	return t, int(t.W) - 1, 0
}

// BitTreeIdentity recognises an ite-DAG over single-bit tests of one source
// term X (conditions of the form extract(X,b,b) == 1, bits 0..k-1, k <= 10)
// whose value always equals those k bits, and returns zext(extract(X,k-1,0)).
func (b *B) BitTreeIdentity(t *T) (*T, bool) {
	if t.Op != OIte {
		return nil, false
	}
	var src *T
	bitsUsed := map[int]bool{}
	ok := true
	seen := map[*T]bool{}
	var walk func(x *T)
	walk = func(x *T) {
		if !ok || seen[x] {
			return
		}
		seen[x] = true
		if len(seen) > 4096 {
			ok = false
			return
		}
		if x.Op == OConst {
			return
		}
		if x.Op != OIte {
			ok = false
			return
		}
		c := x.A
		if c.Op != OEq || c.A.Op != OExtract || c.B.Op != OConst || c.A.W != 1 || c.B.V != 1 {
			ok = false
			return
		}
		if src == nil {
			src = c.A.A
		} else if src != c.A.A {
			ok = false
			return
		}
		bitsUsed[int(c.A.V&0xff)] = true
		walk(x.B)
		walk(x.C)
	}
	walk(t)
	if !ok || src == nil {
		return nil, false
	}
	k := len(bitsUsed)
	if k > 10 || k > int(t.W) {
		return nil, false
	}
	for i := 0; i < k; i++ {
		if !bitsUsed[i] {
			return nil, false
		}
	}
	// evaluate for every assignment of the k bits
	for v := uint64(0); v < 1<<uint(k); v++ {
		x := t
		for x.Op == OIte {
			bit := uint(x.A.A.V & 0xff)
			if v>>bit&1 == 1 {
				x = x.B
			} else {
				x = x.C
			}
		}
		if x.V != v {
			return nil, false
		}
	}
	return b.ZExt(b.Extract(src, k-1, 0), int(t.W)), true
}
