package term

import (
	"math/rand"
	"testing"
)

// genPair builds the same random expression in a simplifying and a
// non-simplifying builder.
type gen struct {
	r    *rand.Rand
	a, b *B
}

var widths = []int{1, 8, 16, 32, 64}

func (g *gen) bv(depth int, w int) (*T, *T) {
	if depth <= 0 || g.r.Intn(6) == 0 {
		switch g.r.Intn(3) {
		case 0:
			v := g.r.Uint64()
			if g.r.Intn(2) == 0 {
				v = uint64(g.r.Intn(70))
			}
			return g.a.Const(w, v), g.b.Const(w, v)
		default:
			n := string(rune('a'+g.r.Intn(3))) + string(rune('0'+w%10)) + string(rune('0'+w/10))
			return g.a.Var(n, w), g.b.Var(n, w)
		}
	}
	switch g.r.Intn(14) {
	case 0, 1, 2, 3:
		ops := []Op{OAdd, OSub, OMul, OAnd, OOr, OXor, OShl, OLShr, OAShr, OUDiv, OURem}
		op := ops[g.r.Intn(len(ops))]
		x1, x2 := g.bv(depth-1, w)
		var y1, y2 *T
		if (op == OShl || op == OLShr || op == OAShr || op == OAnd) && g.r.Intn(2) == 0 {
			v := uint64(g.r.Intn(w + 2))
			if op == OAnd {
				v = []uint64{0xff, 0xff00, 0x3f, 0xfc0, 0xffff0000, 0xf0}[g.r.Intn(6)]
			}
			y1, y2 = g.a.Const(w, v), g.b.Const(w, v)
		} else {
			y1, y2 = g.bv(depth-1, w)
		}
		return g.a.Bin(op, x1, y1), g.b.Bin(op, x2, y2)
	case 4:
		x1, x2 := g.bv(depth-1, w)
		return g.a.Not(x1), g.b.Not(x2)
	case 5:
		x1, x2 := g.bv(depth-1, w)
		return g.a.Neg(x1), g.b.Neg(x2)
	case 6: // zext / sext from narrower
		if w > 1 {
			nw := widths[g.r.Intn(len(widths))]
			if nw < w {
				x1, x2 := g.bv(depth-1, nw)
				if g.r.Intn(2) == 0 {
					return g.a.ZExt(x1, w), g.b.ZExt(x2, w)
				}
				return g.a.SExt(x1, w), g.b.SExt(x2, w)
			}
		}
	case 7: // extract from wider
		ww := widths[g.r.Intn(len(widths))]
		if ww > w {
			x1, x2 := g.bv(depth-1, ww)
			lo := g.r.Intn(ww - w + 1)
			if g.r.Intn(2) == 0 {
				lo = (lo / 8) * 8
				if lo+w > ww {
					lo = 0
				}
			}
			return g.a.Extract(x1, lo+w-1, lo), g.b.Extract(x2, lo+w-1, lo)
		}
	case 8: // concat
		if w >= 2 {
			hw := 1 + g.r.Intn(w-1)
			if w%8 == 0 && g.r.Intn(2) == 0 {
				hw = 8 * (1 + g.r.Intn(w/8))
				if hw >= w {
					hw = w / 2
				}
			}
			h1, h2 := g.bvAny(depth-1, hw)
			l1, l2 := g.bvAny(depth-1, w-hw)
			return g.a.Concat(h1, l1), g.b.Concat(h2, l2)
		}
	case 9, 10:
		c1, c2 := g.boolean(depth - 1)
		x1, x2 := g.bv(depth-1, w)
		y1, y2 := g.bv(depth-1, w)
		return g.a.Ite(c1, x1, y1), g.b.Ite(c2, x2, y2)
	case 12: // (ext(a) * c) div/rem c
		if w == 64 {
			nw := []int{8, 16, 32}[g.r.Intn(3)]
			x1, x2 := g.bv(depth-1, nw)
			c := []uint64{1000000000, 1000, 3, 1 << 31, (1 << 31) - 1, 1<<63 + 5, ^uint64(0), uint64(g.r.Intn(70))}[g.r.Intn(8)]
			op := []Op{OSDiv, OSRem, OUDiv, OURem}[g.r.Intn(4)]
			var e1, e2 *T
			if g.r.Intn(2) == 0 {
				e1, e2 = g.a.ZExt(x1, w), g.b.ZExt(x2, w)
			} else {
				e1, e2 = g.a.SExt(x1, w), g.b.SExt(x2, w)
			}
			return g.a.Bin(op, g.a.Bin(OMul, e1, g.a.Const(w, c)), g.a.Const(w, c)), g.b.Bin(op, g.b.Bin(OMul, e2, g.b.Const(w, c)), g.b.Const(w, c))
		}
	case 11: // byte reassembly pattern
		if w >= 16 {
			src1, src2 := g.bv(depth-1, w)
			var r1, r2 *T
			for i := 0; i < w/8; i++ {
				sh := uint64(8 * i)
				b1 := g.a.ZExt(g.a.Extract(g.a.Bin(OLShr, src1, g.a.Const(w, sh)), 7, 0), w)
				b2 := g.b.ZExt(g.b.Extract(g.b.Bin(OLShr, src2, g.b.Const(w, sh)), 7, 0), w)
				p1 := g.a.Bin(OShl, b1, g.a.Const(w, sh))
				p2 := g.b.Bin(OShl, b2, g.b.Const(w, sh))
				if r1 == nil {
					r1, r2 = p1, p2
				} else {
					op := []Op{OOr, OAdd, OXor}[g.r.Intn(3)]
					r1, r2 = g.a.Bin(op, r1, p1), g.b.Bin(op, r2, p2)
				}
			}
			return r1, r2
		}
	}
	x1, x2 := g.bv(depth-1, w)
	y1, y2 := g.bv(depth-1, w)
	return g.a.Bin(OXor, x1, y1), g.b.Bin(OXor, x2, y2)
}

func (g *gen) bvAny(depth, w int) (*T, *T) {
	if w > 64 {
		w = 64
	}
	return g.bv(depth, w)
}

func (g *gen) boolean(depth int) (*T, *T) {
	if depth <= 0 {
		v := g.r.Intn(2) == 0
		if g.r.Intn(3) > 0 {
			x1, x2 := g.bv(0, 8)
			y1, y2 := g.bv(0, 8)
			return g.a.Eq(x1, y1), g.b.Eq(x2, y2)
		}
		return g.a.Bool(v), g.b.Bool(v)
	}
	switch g.r.Intn(6) {
	case 0, 1, 2:
		w := widths[g.r.Intn(len(widths))]
		x1, x2 := g.bv(depth-1, w)
		y1, y2 := g.bv(depth-1, w)
		op := []Op{OEq, OUlt, OUle, OSlt, OSle}[g.r.Intn(5)]
		return g.a.Cmp(op, x1, y1), g.b.Cmp(op, x2, y2)
	case 3:
		x1, x2 := g.boolean(depth - 1)
		return g.a.BNot(x1), g.b.BNot(x2)
	case 4:
		x1, x2 := g.boolean(depth - 1)
		y1, y2 := g.boolean(depth - 1)
		if g.r.Intn(2) == 0 {
			return g.a.BAnd(x1, y1), g.b.BAnd(x2, y2)
		}
		return g.a.BOr(x1, y1), g.b.BOr(x2, y2)
	default:
		c1, c2 := g.boolean(depth - 1)
		x1, x2 := g.boolean(depth - 1)
		y1, y2 := g.boolean(depth - 1)
		return g.a.Ite(c1, x1, y1), g.b.Ite(c2, x2, y2)
	}
}

func TestSimplifierSound(t *testing.T) {
	r := rand.New(rand.NewSource(7))
	a := NewB()
	b := NewB()
	b.NoSimp = true
	g := &gen{r: r, a: a, b: b}
	n := 60000
	if testing.Short() {
		n = 5000
	}
	for i := 0; i < n; i++ {
		var x, y *T
		if r.Intn(4) == 0 {
			x, y = g.boolean(3)
		} else {
			x, y = g.bv(4, widths[r.Intn(len(widths))])
		}
		for k := 0; k < 6; k++ {
			m := map[string]uint64{}
			for _, w := range widths {
				for c := 0; c < 3; c++ {
					n := string(rune('a'+c)) + string(rune('0'+w%10)) + string(rune('0'+w/10))
					v := r.Uint64()
					switch r.Intn(4) {
					case 0:
						v = uint64(r.Intn(4))
					case 1:
						v = ^uint64(0) - uint64(r.Intn(3))
					}
					m[n] = v
				}
			}
			v1, ok1 := Eval(x, m, map[*T]uint64{})
			v2, ok2 := Eval(y, m, map[*T]uint64{})
			if !ok1 || !ok2 {
				t.Fatalf("eval failed")
			}
			if v1 != v2 {
				t.Fatalf("simplifier unsound on case %d:\n simp: %s\n orig: %s\n model %v\n got %d want %d", i, Sprint(x), Sprint(y), m, v1, v2)
			}
		}
	}
}
